(* C13, continued — the theorems of Props/C13.v describe rtree.Nearby on ONE tree.  NEARBY runs
   while other connections, the expiry sweep, a follower's replication stream and scripts write to
   the same collection; Collection.Set / Delete rewrite R-tree nodes in place.  That the traversal
   nevertheless runs on one tree is an obligation of C13, discharged here over the tables t38x
   regenerates from /repo on every run (Gen/LockTable.v, Dispatch.v, ScriptTables.v, Mutators.v):

     every site that mutates a collection (Collection.Set / Delete, the collection map) is reached
     only under the EXCLUSIVE server lock; every traversal site (Collection.Nearby / Within /
     Intersects / Scan* / Search* / Get) only under at least the SHARED lock; and the lock is held
     from before the handler is entered until after it returned: where the lock of the caller is
     relied upon, neither the handler nor anything it calls contains a server lock call.

   Only `exact`s of lemmas of Proofs/KnnIsoProofs.v (definitions: Model/KnnIso.v). *)
From Coq Require Import String List Bool ZArith Sorted Permutation.
From T38 Require Import Model.Tables Gen.LockTable Gen.Dispatch Gen.ScriptTables Gen.Mutators Model.Gate Model.KnnIso
  Proofs.KnnIsoProofs.
From T38 Require Import Model.Knn Proofs.KnnProofs Proofs.KnnHeap Model.Conc.
Import ListNotations.
Open Scope string_scope.

(* (a) every command string a connection can send *)
Theorem c13_traversal_isolated_cmds : forall c, cmd_isolated c = true.
Proof. exact cmd_isolated_all. Qed.
Print Assumptions c13_traversal_isolated_cmds.

(* ... site by site: a mutation of a collection under the exclusive lock, a traversal under at least
   the shared lock, for the whole handler *)
Theorem c13_sites_isolated : forall c h m,
  find_handler dispatch c = Some h -> In m (fn_effects (h_fn h)) ->
  let held := held_throughout (a_lock (arm_of lock_table c)) (h_fn h) in
  (is_index_mut m = true -> is_excl (ctx_max held (m_ctx m)) = true) /\
  (is_traversal m = true -> at_least_shared (ctx_max held (m_ctx m)) = true).
Proof. exact cmd_sites_isolated. Qed.
Print Assumptions c13_sites_isolated.

(* ... and by name: NEARBY, WITHIN, INTERSECTS, SCAN, SEARCH do traverse, run under the shared lock
   and contain no lock call; SET, FSET, DEL, PDEL, EXPIRE, PERSIST, JSET, JDEL, DROP, FLUSHDB,
   RENAME, RENAMENX do mutate, run under the exclusive lock and contain no lock call *)
Theorem c13_searches_shared_writes_exclusive :
  forallb (fun c => traverses c &&
                    match find_handler dispatch c with
                    | Some h => negb (fn_takes_lock (h_fn h)) | None => false end &&
                    at_least_shared (ctx_of_lock (a_lock (arm_of lock_table c)))) search_cmds = true /\
  forallb (fun c => mutates_index c &&
                    match find_handler dispatch c with
                    | Some h => negb (fn_takes_lock (h_fn h)) | None => false end &&
                    is_excl (ctx_of_lock (a_lock (arm_of lock_table c)))) object_write_cmds = true.
Proof. exact searches_shared_writes_excl. Qed.
Print Assumptions c13_searches_shared_writes_exclusive.

(* (b) every goroutine started anywhere in the package (expiry sweep, follower, AOF sync, shrink,
   live connections, hook managers ...), with nothing held when it starts *)
Theorem c13_traversal_isolated_goroutines : forallb entry_isolated go_entries = true.
Proof. exact goroutines_isolated. Qed.
Print Assumptions c13_traversal_isolated_goroutines.

(* (c) every sub-command of every script variant, under the lock of the outer command (EVAL exclusive,
   EVALRO shared, EVALNA none) joined with the lock the variant's table takes around the call *)
Theorem c13_traversal_isolated_scripts :
  forall t outer, In (t, outer) script_variants_held -> forall c, script_cmd_isolated t outer c = true.
Proof. exact script_cmd_isolated_all. Qed.
Print Assumptions c13_traversal_isolated_scripts.

Theorem c13_script_run_isolated : forall t outer c e l w fn,
  In (t, outer) script_variants_held -> script_gate t c e = SRun l w fn ->
  handler_isolated (lock_max outer l) fn = true.
Proof. exact script_run_isolated. Qed.
Print Assumptions c13_script_run_isolated.

(* (d) what it buys.  Writers = sequences of single-object updates inside one exclusive section,
   NEARBYs = any number of visits of the tree inside one shared section, any number of threads, any
   schedule: every completed NEARBY visited ONE tree, the tree after a complete prefix of the log,
   and its reply is that tree's items, each once, with their own distances, in non-decreasing order
   (c13_sorted on that tree).  Hlb is assumed of the initial tree and preserved by every update
   (the R-tree's containment invariant, trusted and sampled as before). *)
Theorem c13_concurrent_nearby_one_tree :
  forall (I R : Type) (d : I -> Z) (lb : R -> Z) qinv qpush qpop,
  queue_ok qinv qpush qpop -> (forall i, (0 <= d i)%Z) ->
  forall (micro : Type) (apply : option (@tree I R) -> micro -> option (@tree I R)) (s0 : option (@tree I R)),
  root_ok d lb s0 -> (forall s m, root_ok d lb s -> root_ok d lb (apply s m)) ->
  forall prog sched,
  let g := Conc.run _ micro apply (Conc.init _ micro s0 prog) sched in
  forall seen, In seen (Conc.finished _ _ g) ->
  exists k, (k <= length (Conc.log _ _ g))%nat /\
    let t := seq_state _ micro apply s0 (firstn k (Conc.log _ _ g)) in
    (forall x, In x seen -> x = t) /\
    exists l, knn d lb qpush qpop t = Done l /\
              Permutation (map fst l) (root_items t) /\ emitted_ok d l /\ dist_sorted l.
Proof. exact concurrent_nearby_one_tree. Qed.
Print Assumptions c13_concurrent_nearby_one_tree.

(* ---- non-vacuity ---- *)

(* the tables do contain what the statements range over *)
Example c13iso_tables_nonvacuous :
  mutates_index "persist" = true /\ mutates_index "set" = true /\ traverses "nearby" = true /\
  cmd_isolated "persist" = true /\ a_lock (arm_of lock_table "persist") = LExcl /\
  a_lock (arm_of lock_table "nearby") = LShared /\
  existsb is_index_mut (fn_effects "backgroundExpiring") = true /\ existsb is_index_mut (fn_effects "follow") = true.
Proof. vm_compute. repeat split. Qed.

(* the check is not trivially true: the same handler under the shared lock is rejected (this is the
   shape of a write command that fell out of the write list of handleInputCommand), so is a
   traversal with no lock at all *)
Example c13iso_check_discriminates :
  handler_isolated LShared "cmdPERSIST" = false /\ handler_isolated LShared "cmdSET" = false /\
  handler_isolated LNone "cmdNearby" = false /\ handler_isolated LShared "cmdNearby" = true.
Proof. vm_compute. repeat split. Qed.

(* (d) on a concrete run: a two-update writer (insert item 7, then item 3) interleaved with a NEARBY
   of three visits; the NEARBY is blocked until the writer is done and sees the complete tree *)
Definition ex_apply (s : option (@tree nat Z)) (m : nat) : option (@tree nat Z) :=
  match s with
  | None => Some (Leaf [(Z.of_nat m, m)])
  | Some (Leaf l) => Some (Leaf ((Z.of_nat m, m) :: l))
  | Some t => Some t
  end.

Example c13iso_concurrent_example :
  let prog := fun t => match t with 0 => [W nat [7; 3]] | 1 => [R nat 3] | _ => [] end in
  let g := Conc.run _ nat ex_apply (Conc.init _ nat None prog) [0; 1; 0; 1; 0; 0; 1; 1; 1; 1; 1] in
  Conc.finished _ _ g = [[Some (Leaf [(3%Z, 3); (7%Z, 7)]); Some (Leaf [(3%Z, 3); (7%Z, 7)]); Some (Leaf [(3%Z, 3); (7%Z, 7)])]] /\
  knn (fun i => Z.of_nat i) (fun r : Z => r) heap_push heap_pop (Some (Leaf [(3%Z, 3); (7%Z, 7)])) = Done [(3, 3%Z); (7, 7%Z)].
Proof. vm_compute. split; reflexivity. Qed.
