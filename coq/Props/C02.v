(* C02 — Spatial search returns exactly the objects satisfying the geometric predicate.
   Only the property theorems, each closed by a lemma of Proofs/. *)
From Coq Require Import Reals.
From Flocq Require Import Core BinarySingleNaN.
From T38 Require Import Base.Bytes Model.Float32 Model.Collection Model.Search
  Proofs.CollectionProofs Proofs.CollectionBounds Proofs.Float32Proofs Proofs.Float32Enclosure Proofs.SearchProofs.
Import ListNotations.

(* rtreeValueDown / rtreeValueUp never invert an order: for all doubles x <= y (Go's comparison,
   hence both non-NaN; subnormals, values beyond the float32 range and infinities included)
   down x <= up y as float32 values. *)
Theorem c02_round_monotone : forall x y : f64, le64 x y = true -> le32 (down x) (up y) = true.
Proof. exact round_monotone. Qed.
Print Assumptions c02_round_monotone.

(* Hence two float64 rectangles that overlap still overlap after rtreeRect: the index never
   loses a candidate. *)
Theorem c02_overlap_preserved : forall a b : rect64, overlap64 a b ->
  intersects32 (rtree_rect a) (rtree_rect b) = true /\ is_nan32 (r32_minx (rtree_rect b)) = false.
Proof. exact overlap_rounded. Qed.
Print Assumptions c02_overlap_preserved.

(* "Outward rounding" in the literal sense, where it holds: for every finite double whose magnitude
   is at least the smallest normal float32 (2^-126) and whose float32 conversion does not overflow,
   rtreeValueDown x <= x <= rtreeValueUp x (real-valued, +-Inf read as +-2^128; and with the
   comparisons Go itself would evaluate after converting back to float64). *)
Theorem c02_enclosure_normal_range : forall x : f64,
  is_finite x = true -> (bpow radix2 (-126) <= Rabs (B2R x))%R -> is_finite (to32 x) = true ->
  is_nan (down x) = false /\ is_nan (up x) = false /\
  (ext32 (down x) <= B2R x <= ext32 (up x))%R.
Proof. exact enclosure_normal_range. Qed.
Print Assumptions c02_enclosure_normal_range.

Theorem c02_enclosure_normal_range_bool : forall x : f64,
  is_finite x = true -> (bpow radix2 (-126) <= Rabs (B2R x))%R -> is_finite (to32 x) = true ->
  le64 (to64 (down x)) x = true /\ le64 x (to64 (up x)) = true.
Proof. exact enclosure_normal_range_bool. Qed.
Print Assumptions c02_enclosure_normal_range_bool.

(* Outside that range it is false (subnormal float32 range / beyond MaxFloat32); the index needs only
   the monotonicity above. *)
Theorem c02_enclosure_refuted :
  (exists x : f64, is_nan x = false /\ le64 (to64 (down x)) x = false) /\
  (exists x : f64, is_nan x = false /\ le64 x (to64 (up x)) = false).
Proof. exact enclosure_refuted. Qed.
Print Assumptions c02_enclosure_refuted.

(* Within / Intersects (sparse = 0): index candidates by rounded-rectangle overlap, then the exact
   predicate. Under the oracle hypothesis "hits implies the float64 bounding rectangles overlap" the
   result is exactly the indexed objects that satisfy the predicate, in index order. *)
Theorem c02_search_exact : forall (Q : Type) (qrect : Q -> rect64) (hits : obj -> Q -> bool) c q,
  Wf c ->
  (forall o, hits o q = true -> overlap64 (o_rect o) (qrect q)) ->
  search Q qrect hits c q = filter (fun o => hits o q) (spatial_list c).
Proof. exact search_exact. Qed.
Print Assumptions c02_search_exact.

(* ... and that is exactly the set of retrievable objects for which TEST holds, without duplicates.
   TEST evaluates the predicate through expression.go testObject, which (since the repair
   proposed_fixes/C02-test-empty-geometry.diff) answers false for an empty geometry before calling
   the library — test_hits. The oracle hypotheses are only about non-empty geometries: the predicate
   implies overlapping bounding rectangles, and a non-spatial object never satisfies it. *)
Theorem c02_search_equals_test : forall (Q : Type) (qrect : Q -> rect64) (hits : obj -> Q -> bool) c q,
  Wf c ->
  (forall o, o_empty o = false -> hits o q = true -> overlap64 (o_rect o) (qrect q)) ->
  (forall o, o_empty o = false -> hits o q = true -> o_spatial o = true) ->
  (forall o, In o (search Q qrect hits c q) <-> In o (test_spec Q hits c q)) /\
  NoDup (map o_id (search Q qrect hits c q)).
Proof. exact search_equals_test. Qed.
Print Assumptions c02_search_equals_test.

(* The statement for the raw library predicate (TEST before the repair) needs the extra hypothesis
   "only non-empty geometries satisfy the predicate" ... *)
Theorem c02_search_equals_raw_predicate : forall (Q : Type) (qrect : Q -> rect64) (hits : obj -> Q -> bool) c q,
  Wf c ->
  (forall o, hits o q = true -> overlap64 (o_rect o) (qrect q)) ->
  (forall o, hits o q = true -> o_spatial o = true /\ o_empty o = false) ->
  (forall o, In o (search Q qrect hits c q) <-> In o (search_spec Q hits c q)) /\
  NoDup (map o_id (search Q qrect hits c q)).
Proof. exact search_spec_equiv. Qed.
Print Assumptions c02_search_equals_raw_predicate.

(* ... which cannot be dropped, and which tidwall/geojson violates (Circle.Contains is vacuously
   true for an empty FeatureCollection): with such a predicate the raw index-free evaluation holds for
   an object the index never returns. This was finding C02-empty-in-circle; the repaired TEST applies
   the empty rule itself (previous theorem). *)
Theorem c02_kind_hypothesis_needed :
  exists c q, Wf c /\
    (forall o, In o (scan_ids c) -> vacuous_hits o q = true -> overlap64 (o_rect o) q) /\
    In empty_fc (search_spec rect64 vacuous_hits c q) /\
    search rect64 (fun q => q) vacuous_hits c q = [].
Proof. exact kind_hypothesis_needed. Qed.
Print Assumptions c02_kind_hypothesis_needed.

(* after any history of inserts, overwrites, moves and deletes *)
Theorem c02_any_history : forall ops, Wf (run ops).
Proof. exact wf_run. Qed.
Print Assumptions c02_any_history.

(* SPARSE only thins: every reported object satisfies the predicate and is in the exact result;
   no object is reported twice (for any way of splitting the query rectangle into leaves). *)
Theorem c02_sparse_sound : forall (Q : Type) (qrect : Q -> rect64) (hits : obj -> Q -> bool)
    (leaves : rect64 -> nat -> list rect64) c q n,
  Wf c ->
  (forall o, In o (sparse_search Q qrect hits leaves c q n) -> hits o q = true /\ In o (spatial_list c)) /\
  NoDup (map o_id (sparse_search Q qrect hits leaves c q n)).
Proof. exact sparse_sound. Qed.
Print Assumptions c02_sparse_sound.

(* the same for the quad split geoSparseInner actually performs (float64 w/2, h/2 arithmetic,
   depth-first, 4^n leaves) *)
Theorem c02_sparse_sound_quads : forall (Q : Type) (qrect : Q -> rect64) (hits : obj -> Q -> bool) c q n,
  Wf c ->
  (forall o, In o (sparse_search Q qrect hits quad_leaves c q n) -> hits o q = true /\ In o (spatial_list c)) /\
  NoDup (map o_id (sparse_search Q qrect hits quad_leaves c q n)).
Proof. exact sparse_sound_quads. Qed.
Print Assumptions c02_sparse_sound_quads.

(* an all-NaN query rectangle returns nothing (the guard of geoSearch) *)
Theorem c02_nan_guard : forall sp qr,
  is_nan (r64_minx qr) = true -> is_nan (r64_miny qr) = true ->
  is_nan (r64_maxx qr) = true -> is_nan (r64_maxy qr) = true -> geo_search sp qr = [].
Proof. exact nan_guard. Qed.
Print Assumptions c02_nan_guard.

(* non-vacuity: the oracle hypotheses are satisfiable by a non-trivial predicate (bounding boxes
   overlap) and the search then returns a non-empty strict subset on a concrete state *)
Example c02_nonvacuous :
  (forall o q, box_hits o q = true -> overlap64 (o_rect o) q) /\
  (forall o q, box_hits o q = true -> o_spatial o = true /\ o_empty o = false) /\
  let c := run [OSet f12_p1; OSet f12_p2;
                OSet (Obj [113]%N true false 1 17 [] 0 (rect64_of_bits 0 0 0 0));
                OSet (Obj [115]%N false true 0 2 [120]%N 0 (rect64_of_bits 0 0 0 0))] in
  (* the index proposes both points of the float32 cell, the exact predicate keeps the right one *)
  length (geo_search (c_spatial c) (o_rect f12_p1)) = 2%nat /\
  map o_id (search rect64 (fun q => q) box_hits c (o_rect f12_p1)) = [[112; 49]]%N /\
  length (scan_ids c) = 4%nat.
Proof.
  split; [exact box_hits_overlap|]. split; [exact box_hits_kind|]. vm_compute. repeat split; reflexivity.
Qed.

(* non-vacuity of the enclosure hypotheses (x = 100.000002, not a float32) and the repaired TEST on
   the vacuously-true predicate: the empty FeatureCollection is no longer reported *)
Example c02_enclosure_nonvacuous :
  let x := f64_of_bits 4636737291495373776 in
  is_finite x = true /\ is_finite (to32 x) = true /\
  le64 (f64_of_bits 4039728865751334912) x = true /\       (* 2^-126 <= x *)
  bits_of_f32 (down x) = 1120403456%Z /\ bits_of_f32 (up x) = 1120403458%Z /\
  test_spec rect64 vacuous_hits (run [OSet empty_fc]) (rect64_of_bits 0 0 0 0) = [].
Proof. vm_compute. repeat split; reflexivity. Qed.
