(* C02 — Spatial search returns exactly the objects satisfying the geometric predicate.
   Only the property theorems, each closed by a lemma of Proofs/. *)
From Flocq Require Import BinarySingleNaN.
From T38 Require Import Base.Bytes Model.Float32 Model.Collection Model.Search
  Proofs.CollectionProofs Proofs.CollectionBounds Proofs.Float32Proofs Proofs.SearchProofs.
Import ListNotations.

(* rtreeValueDown / rtreeValueUp never invert an order: for all doubles x <= y (Go's comparison,
   hence both non-NaN; subnormals, values beyond the float32 range and infinities included)
   down x <= up y as float32 values. *)
Theorem c02_round_monotone : forall x y : f64, le64 x y = true -> le32 (down x) (up y) = true.
Proof. exact round_monotone. Qed.
Print Assumptions c02_round_monotone.

(* Hence two float64 rectangles that overlap still overlap after rtreeRect: the index never
   loses a candidate. *)
Theorem c02_overlap_preserved : forall a b : rect64, overlap64 a b ->
  intersects32 (rtree_rect a) (rtree_rect b) = true /\ is_nan32 (r32_minx (rtree_rect b)) = false.
Proof. exact overlap_rounded. Qed.
Print Assumptions c02_overlap_preserved.

(* The literal "outward rounding" (down x <= x <= up x) is false outside the float32 normal range;
   the index needs only the monotonicity above. (For |x| inside the normal float32 range the
   enclosure is checked by the harness on the Go functions, not proved.) *)
Theorem c02_enclosure_refuted :
  (exists x : f64, is_nan x = false /\ le64 (to64 (down x)) x = false) /\
  (exists x : f64, is_nan x = false /\ le64 x (to64 (up x)) = false).
Proof. exact enclosure_refuted. Qed.
Print Assumptions c02_enclosure_refuted.

(* Within / Intersects (sparse = 0): index candidates by rounded-rectangle overlap, then the exact
   predicate. Under the oracle hypothesis "hits implies the float64 bounding rectangles overlap" the
   result is exactly the indexed objects that satisfy the predicate, in index order. *)
Theorem c02_search_exact : forall (Q : Type) (qrect : Q -> rect64) (hits : obj -> Q -> bool) c q,
  Wf c ->
  (forall o, hits o q = true -> overlap64 (o_rect o) (qrect q)) ->
  search Q qrect hits c q = filter (fun o => hits o q) (spatial_list c).
Proof. exact search_exact. Qed.
Print Assumptions c02_search_exact.

(* ... and if strings and empty geometries never satisfy the predicate, that is exactly the set of
   retrievable objects for which the index-free evaluation (TEST) holds, without duplicates. *)
Theorem c02_search_equals_test : forall (Q : Type) (qrect : Q -> rect64) (hits : obj -> Q -> bool) c q,
  Wf c ->
  (forall o, hits o q = true -> overlap64 (o_rect o) (qrect q)) ->
  (forall o, hits o q = true -> o_spatial o = true /\ o_empty o = false) ->
  (forall o, In o (search Q qrect hits c q) <-> In o (search_spec Q hits c q)) /\
  NoDup (map o_id (search Q qrect hits c q)).
Proof. exact search_spec_equiv. Qed.
Print Assumptions c02_search_equals_test.

(* Known finding C02-empty-in-circle: the hypothesis "only non-empty geometries satisfy the
   predicate" cannot be dropped — with a predicate that is vacuously true on an empty geometry
   (tidwall/geojson Circle.Contains on an empty FeatureCollection) the index-free evaluation holds
   for an object the index never returns. *)
Theorem c02_kind_hypothesis_needed :
  exists c q, Wf c /\
    (forall o, In o (scan_ids c) -> vacuous_hits o q = true -> overlap64 (o_rect o) q) /\
    In empty_fc (search_spec rect64 vacuous_hits c q) /\
    search rect64 (fun q => q) vacuous_hits c q = [].
Proof. exact kind_hypothesis_needed. Qed.
Print Assumptions c02_kind_hypothesis_needed.

(* after any history of inserts, overwrites, moves and deletes *)
Theorem c02_any_history : forall ops, Wf (run ops).
Proof. exact wf_run. Qed.
Print Assumptions c02_any_history.

(* SPARSE only thins: every reported object satisfies the predicate and is in the exact result;
   no object is reported twice (for any way of splitting the query rectangle into leaves). *)
Theorem c02_sparse_sound : forall (Q : Type) (qrect : Q -> rect64) (hits : obj -> Q -> bool)
    (leaves : rect64 -> nat -> list rect64) c q n,
  Wf c ->
  (forall o, In o (sparse_search Q qrect hits leaves c q n) -> hits o q = true /\ In o (spatial_list c)) /\
  NoDup (map o_id (sparse_search Q qrect hits leaves c q n)).
Proof. exact sparse_sound. Qed.
Print Assumptions c02_sparse_sound.

(* an all-NaN query rectangle returns nothing (the guard of geoSearch) *)
Theorem c02_nan_guard : forall sp qr,
  is_nan (r64_minx qr) = true -> is_nan (r64_miny qr) = true ->
  is_nan (r64_maxx qr) = true -> is_nan (r64_maxy qr) = true -> geo_search sp qr = [].
Proof. exact nan_guard. Qed.
Print Assumptions c02_nan_guard.

(* non-vacuity: the oracle hypotheses are satisfiable by a non-trivial predicate (bounding boxes
   overlap) and the search then returns a non-empty strict subset on a concrete state *)
Example c02_nonvacuous :
  (forall o q, box_hits o q = true -> overlap64 (o_rect o) q) /\
  (forall o q, box_hits o q = true -> o_spatial o = true /\ o_empty o = false) /\
  let c := run [OSet f12_p1; OSet f12_p2;
                OSet (Obj [113]%N true false 1 17 [] 0 (rect64_of_bits 0 0 0 0));
                OSet (Obj [115]%N false true 0 2 [120]%N 0 (rect64_of_bits 0 0 0 0))] in
  (* the index proposes both points of the float32 cell, the exact predicate keeps the right one *)
  length (geo_search (c_spatial c) (o_rect f12_p1)) = 2%nat /\
  map o_id (search rect64 (fun q => q) box_hits c (o_rect f12_p1)) = [[112; 49]]%N /\
  length (scan_ids c) = 4%nat.
Proof.
  split; [exact box_hits_overlap|]. split; [exact box_hits_kind|]. vm_compute. repeat split; reflexivity.
Qed.
