(* C20, continued — "for all id patterns": the pattern-vs-literal decision of the ROAM clause.
   Only the property theorems, each closed by a lemma of Proofs/RoamPatProofs.v.

   search.go parses  ROAM key pattern meters  into  roam.id = pattern, roam.pattern = glob.IsGlob(pattern)
   (Model.Roam.roam_parse / is_glob); fenceMatchNearbys compares ids with glob.Match when roam.pattern
   is set and with string equality otherwise (Model.Roam.id_match).  Props/C20.v states nearby /
   faraway in terms of id_match of an arbitrary switch record; the theorems below say what id_match
   of a *parsed* clause is.
     glob_ok p   the pattern passes IsGlob's probe Match(p, "whatever") without ErrBadPattern
     has_wild p  a '[', '*' or '?' occurs in p *)
From Coq Require Import List NArith ZArith Bool.
From T38 Require Import Base.Bytes Model.Glob Model.Roam Proofs.RoamPatProofs Gen.GlobMeta.
Import ListNotations.

(* a pattern of plain bytes (no '[', '*', '?', '\') matches exactly itself *)
Theorem c20_plain_pattern_matches_itself : forall p s,
  no_meta p -> (glob_match p s = WTrue <-> p = s).
Proof. exact glob_match_literal. Qed.
Print Assumptions c20_plain_pattern_matches_itself.

(* the literal shortcut is justified exactly when IsGlob is false *)
Theorem c20_isglob_false_shortcut_exact : forall p,
  is_glob p = false -> glob_ok p -> ~ In BSL p ->
  forall s, glob_match p s = WTrue <-> p = s.
Proof. exact roam_shortcut_exact. Qed.
Print Assumptions c20_isglob_false_shortcut_exact.

(* partial: for patterns that pass the probe and in which an escape only occurs together with a
   wildcard (what is missing: c20_escape_only_is_literal below).  The ids a parsed ROAM clause
   selects are exactly those glob.Match accepts. *)
Theorem c20_idmatch_all_patterns_partial : forall p meters nodwell detnil s,
  glob_ok p -> (In BSL p -> has_wild p = true) ->
  (id_match (roam_parse p meters nodwell detnil) s = true <-> glob_match p s = WTrue).
Proof. exact roam_idmatch_all_patterns. Qed.
Print Assumptions c20_idmatch_all_patterns_partial.

(* a pattern without wildcard names one id, whatever else it contains *)
Theorem c20_idmatch_plain : forall p meters nodwell detnil s,
  has_wild p = false -> (id_match (roam_parse p meters nodwell detnil) s = true <-> p = s).
Proof. exact roam_idmatch_plain. Qed.
Print Assumptions c20_idmatch_plain.

(* an IsGlob whose case list forgets '?', '*' or '[' takes the literal shortcut on a pattern that
   matches another string *)
Theorem c20_isglob_without_qm_refuted : shortcut_wrong [LBR; STAR].
Proof. exact isglob_without_qm_refuted. Qed.
Print Assumptions c20_isglob_without_qm_refuted.
Theorem c20_isglob_without_star_refuted : shortcut_wrong [LBR; QM].
Proof. exact isglob_without_star_refuted. Qed.
Print Assumptions c20_isglob_without_star_refuted.
Theorem c20_isglob_without_bracket_refuted : shortcut_wrong [STAR; QM].
Proof. exact isglob_without_bracket_refuted. Qed.
Print Assumptions c20_isglob_without_bracket_refuted.

(* the hypothesis on escapes cannot be dropped:  ROAM key car\1 m  selects the id "car\1", not "car1"
   (documented behaviour: a pattern without wildcard is an exact id) *)
Theorem c20_escape_only_is_literal :
  exists p s, glob_ok p /\ glob_match p s = WTrue /\
              id_match (roam_parse p 0%Z false true) s = false /\
              id_match (roam_parse p 0%Z false true) p = true.
Proof. exact roam_escape_only_is_literal. Qed.
Print Assumptions c20_escape_only_is_literal.

(* tie to the source: the case list and the probe string of glob.IsGlob, the assignment
   roam.pattern = glob.IsGlob(roam.id) and the if/else of fenceMatchNearbys, as re-read by t38x *)
Theorem c20_isglob_source_tied :
  (forall c, In c isglob_case_bytes <-> In c ISGLOB_METAS) /\
  isglob_probe = WHATEVER /\ roam_pattern_is_isglob = true /\ roam_idmatch_shape = true.
Proof. exact isglob_source_tied. Qed.
Print Assumptions c20_isglob_source_tied.

(* the hypotheses are satisfiable by every wildcard class *)
Example c20_pattern_classes :
  map is_glob [b_car_s; b_car_q; b_car_c; b_car1; b_car_e1] = [true; true; true; false; false] /\
  map (fun p => id_match (roam_parse p 0%Z false true) b_car1) [b_car_s; b_car_q; b_car_c; b_car1; b_car_e1]
    = [true; true; true; true; false].
Proof. split; vm_compute; reflexivity. Qed.
