(* C19 — Counters, bounds and every access path agree with the retrievable dataset.
   Only the property theorems, each closed by a lemma of Proofs/. *)
From T38 Require Import Base.Bytes Model.Float32 Model.Collection Proofs.CollectionProofs Proofs.CollectionBounds Proofs.CollectionTotals.
From T38 Require Import Model.HookReg.
Import ListNotations.
Local Open Scope Z_scope.

(* The invariant (each index holds exactly the objects it should, each counter equals its
   recomputation from objs) is preserved by Set and Delete as collection.go performs them. *)
Theorem c19_wf_preserved : forall c o id, Wf c -> Wf (cset c o) /\ Wf (cdelete c id).
Proof. exact wf_preserved. Qed.
Print Assumptions c19_wf_preserved.

(* Hence it holds after every history of Set/Delete starting from New(). *)
Theorem c19_any_history : forall ops, Wf (run ops).
Proof. exact wf_run. Qed.
Print Assumptions c19_any_history.

(* Counters = recomputation from the objects the id scan returns. *)
Theorem c19_counters_agree : forall c, Wf c ->
  ccount c = Z.of_nat (length (scan_ids c)) /\
  cstring_count c = zsum (fun o => b2z (negb (o_spatial o))) (scan_ids c) /\
  cpoint_count c = zsum o_npoints (scan_ids c) /\
  ctotal_weight c = zsum o_weight (scan_ids c).
Proof. exact counters_agree. Qed.
Print Assumptions c19_counters_agree.

(* Every access path returns exactly the retrievable objects of its class (retrievable = what
   Get returns for that id), without duplicates. *)
Theorem c19_paths_agree : forall c, Wf c ->
  (forall o, In o (scan_ids c) <-> cget c (o_id o) = Some o) /\
  (forall o, In o (search_values c) <-> (cget c (o_id o) = Some o /\ o_spatial o = false)) /\
  (forall o, In o (spatial_list c) <-> (cget c (o_id o) = Some o /\ o_spatial o = true /\ o_empty o = false)) /\
  (forall o, In o (scan_expires c) <-> (cget c (o_id o) = Some o /\ o_ex o <> 0)) /\
  NoDup (map o_id (scan_ids c)) /\ NoDup (map o_id (search_values c)) /\
  NoDup (map o_id (spatial_list c)) /\ NoDup (map o_id (scan_expires c)).
Proof. exact paths_agree. Qed.
Print Assumptions c19_paths_agree.

(* Server totals (SERVER, SERVER EXT, /metrics: sums over the registered collections) equal the
   recomputation from every retrievable object of the server. *)
Theorem c19_server_totals : forall cs : cols, Forall (fun kc => Wf (snd kc)) cs ->
  srv_num_objects cs = Z.of_nat (length (all_objs cs)) /\
  srv_num_strings cs = zsum (fun o => b2z (negb (o_spatial o))) (all_objs cs) /\
  srv_num_points cs = zsum o_npoints (all_objs cs) /\
  srv_in_memory_size cs = zsum o_weight (all_objs cs).
Proof. exact server_totals. Qed.
Print Assumptions c19_server_totals.

(* num_collections counts exactly the keys holding a retrievable object, provided no registered
   collection is empty (the keyspace invariant of C01; seeded change C19/1 breaks it). *)
Theorem c19_num_collections : forall cs : cols, (forall kc, In kc cs -> scan_ids (snd kc) <> []) ->
  srv_num_collections cs =
    Z.of_nat (length (filter (fun kc => negb (Nat.eqb (length (scan_ids (snd kc))) 0)) cs)).
Proof. exact num_collections_live. Qed.
Print Assumptions c19_num_collections.

(* Hook registry (Model/HookReg.v, invariant proved for C05): after any history of SETHOOK / SETCHAN /
   DEL* / PDEL* / FLUSHDB / expiry, num_hooks = |HOOKS *| + |CHANS *|, names are unique, and the
   secondary registries (expiry, fence tree, cross tree, outside list) hold only registered hooks. *)
Theorem c19_hook_totals : forall ops,
  let r := reg_run ops in
  num_hooks r = (length (hooks_listing r) + length (chans_listing r))%nat /\
  NoDup (map h_name (hooks r)) /\
  (forall h, In h (hookExpires r) -> In h (hooks r)) /\
  (forall h, In h (hookTree r) -> In h (hooks r)) /\
  (forall h, In h (hookCross r) -> In h (hooks r)) /\
  (forall h, In h (hooksOut r) -> In h (hooks r)).
Proof. exact hook_totals. Qed.
Print Assumptions c19_hook_totals.

(* Bounds. Full statement wanted by the property:
     forall c b, Wf c -> bounds_ok c b = true -> bounds_exact c b = true
   It is FALSE for the code as written (known finding C19-bounds-f32-key, F12): *)
Theorem c19_bounds_exact_refuted :
  exists c b, Wf c /\ bounds_ok c b = true /\ bounds_exact c b = false.
Proof. exact bounds_exact_refuted. Qed.
Print Assumptions c19_bounds_exact_refuted.

(* What does hold: every reported side is the exact coordinate of a retrievable spatial non-empty
   object, and that object's float32 index key is extreme among the keys of all such objects.
   Missing for the full statement: the float32 keys (rtreeValueDown/Up) do not order distinct
   float64 coordinates that fall into the same or adjacent float32 cells. *)
Theorem c19_bounds_partial : forall c b,
  Wf c -> c_spatial c <> [] -> bounds_ok c b = true -> bounds_spec_partial c b.
Proof. exact bounds_partial. Qed.
Print Assumptions c19_bounds_partial.

Theorem c19_bounds_empty : forall c b, c_spatial c = [] -> bounds_ok c b = true ->
  f64_same (r64_minx b) zero64 = true /\ f64_same (r64_miny b) zero64 = true /\
  f64_same (r64_maxx b) zero64 = true /\ f64_same (r64_maxy b) zero64 = true.
Proof. exact bounds_empty. Qed.
Print Assumptions c19_bounds_empty.

(* non-vacuity: a well-formed state with a string, a geometry, an empty geometry and a deadline;
   and a state with a non-empty spatial index and an admissible exact Bounds answer *)
Example c19_nonvacuous :
  let c := run [OSet (Obj [97]%N false true 0 2 [120]%N 0 (rect64_of_bits 0 0 0 0));
                OSet (Obj [98]%N true false 1 17 [] 5 (o_rect f12_p1));
                OSet (Obj [97]%N true true 0 1 [] 7 (rect64_of_bits 0 0 0 0));
                ODel [99]%N] in
  Wf c /\ ccount c = 2 /\ cstring_count c = 0 /\ cpoint_count c = 1 /\ ctotal_weight c = 18 /\
  length (scan_expires c) = 2%nat /\ length (spatial_list c) = 1%nat.
Proof. split; [apply wf_run|]. vm_compute. repeat split. Qed.

Example c19_bounds_nonvacuous :
  c_spatial f12_coll <> [] /\
  bounds_ok f12_coll (rect64_of_bits 4636737291425005032 4607182418800017408 4636737291495373776 4607182418800017408) = true /\
  bounds_exact f12_coll (rect64_of_bits 4636737291425005032 4607182418800017408 4636737291495373776 4607182418800017408) = true.
Proof. exact bounds_nonvacuous. Qed.
