(* C13 — NEARBY returns nearest neighbours in distance order.
   Only the property theorems, each closed by a lemma of Proofs/KnnProofs.v.

   d  : the distance of an item (geodeticDistAlgo on the object's own rectangle; what DISTANCE prints)
   lb : the queue key of a node rectangle (the same function on the node rectangle)
   Hypotheses (trusted, sampled by the harness through verifapi):
     root_ok d lb root  — Hlb: for every node entry (rect, subtree) of the R-tree and every item
                          under that subtree, lb rect <= d item  (R-tree containment invariant +
                          monotonicity of the geodesic point-to-rectangle bound, in floating point)
     forall i, 0 <= d i — distances are not negative (the root enters the queue with key 0)
     queue_ok qinv qpush qpop — the queue discipline, with an invariant qinv of its representation:
                          push adds the entry, pop returns an entry of minimal key and leaves the
                          others.  Proved for the list queue (c13_list_queue) and for the transcribed
                          binary heap of tidwall/rtree (c13_heap_queue, invariant heap_inv).
   No theorem depends on the order inside a group of equal keys: they hold for every such queue. *)
From Coq Require Import List NArith ZArith Sorted Permutation Lia.
From T38 Require Import Model.Cursor Model.Knn Proofs.CursorProofs Proofs.KnnProofs Proofs.KnnHeap.
Import ListNotations.

(* The traversal terminates within its fuel, emits every indexed item exactly once (a permutation
   of the items), reports for each its own distance, in non-decreasing order.  All trees. *)
Theorem c13_list_queue : forall (I R : Type), @queue_ok I R (fun _ => True) list_push pop_min.
Proof. exact @list_queue_ok. Qed.
Print Assumptions c13_list_queue.

(* the library's binary min-heap as transcribed (sift_up / sift_down over a slice) is a correct
   min-queue on every queue it can reach *)
Theorem c13_heap_queue : forall (I R : Type), @queue_ok I R heap_inv heap_push heap_pop.
Proof. exact @heap_queue_ok. Qed.
Print Assumptions c13_heap_queue.

Theorem c13_sorted : forall (I R : Type) (d : I -> Z) (lb : R -> Z) qinv qpush qpop,
  queue_ok qinv qpush qpop -> (forall i, (0 <= d i)%Z) ->
  forall root : option (@tree I R), root_ok d lb root ->
  exists l, knn d lb qpush qpop root = Done l /\
            Permutation (map fst l) (root_items root) /\
            emitted_ok d l /\ dist_sorted l.
Proof. exact @knn_sorted. Qed.
Print Assumptions c13_sorted.

(* the instance the server runs: the binary heap *)
Theorem c13_sorted_binary_heap : forall (I R : Type) (d : I -> Z) (lb : R -> Z),
  (forall i, (0 <= d i)%Z) ->
  forall root : option (@tree I R), root_ok d lb root ->
  exists l, knn d lb heap_push heap_pop root = Done l /\
            Permutation (map fst l) (root_items root) /\
            emitted_ok d l /\ dist_sorted l.
Proof. intros I R d lb. exact (knn_sorted d lb heap_inv heap_push heap_pop heap_queue_ok). Qed.
Print Assumptions c13_sorted_binary_heap.

(* One NEARBY request (Collection.Nearby's cursor skeleton + cmdNearby's radius cut + pushObject,
   run as the traversal's iterator) is the C11 page function over that order: every C11 theorem
   (complete duplicate-free pagination, exact LIMIT) applies to NEARBY with any filter. *)
Theorem c13_query_is_page : forall (I R : Type) (d : I -> Z) (lb : R -> Z) qpush qpop test
    (root : option (@tree I R)) max_dist cursor limit l,
  knn d lb qpush qpop root = Done l ->
  nearby_query d lb qpush qpop test root max_dist cursor limit =
  Done (page test (radius_stop max_dist) l cursor limit).
Proof. exact @nearby_query_page. Qed.
Print Assumptions c13_query_is_page.

(* LIMIT k, no radius (absent or 0), no filter: the reply is k items (all of them if fewer), in
   non-decreasing distance, and no item left out is closer than any item returned. *)
Theorem c13_k_closest : forall (I R : Type) (d : I -> Z) (lb : R -> Z),
  (forall i, (0 <= d i)%Z) ->
  forall qpush qpop qinv, queue_ok qinv qpush qpop ->
  forall (root : option (@tree I R)) k max_dist,
  root_ok d lb root -> (1 <= k)%N -> (max_dist <= 0)%Z ->
  exists l res c,
    knn d lb qpush qpop root = Done l /\
    nearby_query d lb qpush qpop (fun _ => true) root max_dist 0 k = Done (res, c) /\
    Permutation (map fst l) (root_items root) /\ emitted_ok d l /\
    res = firstn (N.to_nat k) l /\
    dist_sorted res /\
    (forall x y, In x res -> In y (skipn (N.to_nat k) l) -> (snd x <= snd y)%Z).
Proof. exact @k_closest. Qed.
Print Assumptions c13_k_closest.

(* A positive radius r: the early stop at the first distance above r loses nothing — the reply is
   exactly the items with d <= r (as a set: a permutation of the filtered item list), in
   distance order; a single request with a LIMIT above the item count returns them with cursor 0. *)
Theorem c13_radius : forall (I R : Type) (d : I -> Z) (lb : R -> Z),
  (forall i, (0 <= d i)%Z) ->
  forall qpush qpop qinv, queue_ok qinv qpush qpop ->
  forall (root : option (@tree I R)) r limit,
  root_ok d lb root -> (0 < r)%Z ->
  exists l,
    knn d lb qpush qpop root = Done l /\
    unlimited (fun _ => true) (radius_stop r) l = filter (fun e => (snd e <=? r)%Z) l /\
    Permutation (map fst (unlimited (fun _ => true) (radius_stop r) l))
                (filter (fun i => (d i <=? r)%Z) (root_items root)) /\
    ((N.of_nat (length l) < limit)%N ->
     nearby_query d lb qpush qpop (fun _ => true) root r 0 limit =
     Done (filter (fun e => (snd e <=? r)%Z) l, 0%N)).
Proof. exact @radius_exact. Qed.
Print Assumptions c13_radius.

(* non-vacuity: a two-level tree whose keys are lower bounds; items are their own distances *)
Definition ex_tree : @tree Z Z :=
  Node [(2%Z, Leaf [(0%Z, 5%Z); (0%Z, 2%Z); (0%Z, 9%Z)]);
        (1%Z, Node [(1%Z, Leaf [(0%Z, 1%Z); (0%Z, 7%Z)]); (3%Z, Leaf [(0%Z, 3%Z); (0%Z, 3%Z)])])].

Example c13_nonvacuous :
  root_ok (fun i : Z => i) (fun r : Z => r) (Some ex_tree) /\
  knn (fun i : Z => i) (fun r : Z => r) list_push pop_min (Some ex_tree) =
    Done [(1, 1); (2, 2); (3, 3); (3, 3); (5, 5); (7, 7); (9, 9)]%Z /\
  nearby_query (fun i : Z => i) (fun r : Z => r) list_push pop_min (fun _ => true) (Some ex_tree) 4 0 10 =
    Done ([(1, 1); (2, 2); (3, 3); (3, 3)]%Z, 0%N) /\
  nearby_query (fun i : Z => i) (fun r : Z => r) list_push pop_min (fun _ => true) (Some ex_tree) 0 2 3 =
    Done ([(3, 3); (3, 3); (5, 5)]%Z, 5%N).
Proof.
  split; [|vm_compute; repeat split].
  cbn [root_ok ex_tree].
  repeat (first [apply lb_leaf | apply lb_node | constructor | split
                | (cbn; intros i Hi; repeat (destruct Hi as [<-|Hi]; [lia|]); destruct Hi)]).
Qed.

(* the transcribed binary heap on the same tree: the same distance sequence (the two items at
   distance 3 may come in either order) *)
Example c13_heap_nonvacuous :
  knn (fun i : Z => i) (fun r : Z => r) heap_push heap_pop (Some ex_tree) =
    Done [(1, 1); (2, 2); (3, 3); (3, 3); (5, 5); (7, 7); (9, 9)]%Z.
Proof. vm_compute. reflexivity. Qed.

(* Finding C13-rounding-noise (repaired by proposed_fixes/C13-nearby-node-key-margin.diff): the
   hypothesis root_ok cannot be dropped, and before the repair the real key function violated it by
   floating-point rounding (two formulas for the same quantity): a node whose key is above the
   distance of an item under it lets an item of another node out first.  Witness in units of one
   float64 step at 5003771.699 m, as observed on the unrepaired server
   (corpus/C13/rounding-noise-order-65pts.txt): a node key above an item under it (6 over 4; the
   server's heap needs only a tie, the list queue's first-minimum pop needs one step more), other
   item at 5. *)
Theorem c13_order_without_hlb_refuted :
  exists (d lb : Z -> Z) (root : option (@tree Z Z)) l,
    (forall i, (0 <= d i)%Z) /\ knn d lb list_push pop_min root = Done l /\ ~ dist_sorted l.
Proof.
  exists (fun i => Z.abs i), (fun r => r),
         (Some (Node [(6%Z, Leaf [(0%Z, 4%Z)]); (5%Z, Leaf [(0%Z, 5%Z)])])), [(5, 5); (4, 4)]%Z.
  split; [intros i; lia|]. split; [vm_compute; reflexivity|].
  intros H. inversion H as [|? ? _ Hf]; subst. inversion Hf as [|? ? Hle _]; subst. cbn in Hle. lia.
Qed.
Print Assumptions c13_order_without_hlb_refuted.
