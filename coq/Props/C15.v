(* C15 — Follower, read-only, password and protected-mode gates hold for every command.
   Only the property theorems; every one is closed by a lemma of Proofs/GateProofs.v and is about
   the tables t38x regenerated from /repo for this run (coq/Gen). *)
From Coq Require Import String List Bool.
From T38 Require Import Model.Tables Gen.LockTable Gen.Dispatch Gen.ScriptTables Gen.AuthGate Gen.Mutators
  Model.Gate Proofs.GateProofs.
Import ListNotations.
Open Scope string_scope.

(* every command (any string) whose handler can modify the dataset sits in an arm that refuses
   followers ("not the leader") and read-only servers ("read only") before the handler runs *)
Theorem c15_follower_readonly : forall c e,
  changes c = true -> in_strs c dev_only = false ->
  (e_follower e = true \/ e_readonly e = true) ->
  match arm_verdict (arm_of lock_table c) e with Some ENotLeader | Some EReadOnly => True | _ => False end.
Proof. exact changing_cmd_rejected. Qed.
Print Assumptions c15_follower_readonly.

(* the same from scripts: in each of the three tile38.call tables a changing sub-command is on the
   deny list, refused outright (read only / not supported), or tested for follower and read-only *)
Theorem c15_follower_readonly_scripts :
  forall t, In t [script_rw; script_ro; script_na] -> forall c, script_follower_ro_check t c = true.
Proof. exact script_follower_ro_all. Qed.
Print Assumptions c15_follower_readonly_scripts.

(* every command whose handler hands out stored objects refuses on a follower that never caught up
   (or refuses followers altogether) — directly and from every script variant *)
Theorem c15_not_caught_up : forall c, caughtup_check c = true.
Proof. exact caughtup_all. Qed.
Print Assumptions c15_not_caught_up.

Theorem c15_not_caught_up_scripts :
  forall t, In t [script_rw; script_ro; script_na] -> forall c, script_caughtup_check t c = true.
Proof. exact script_caughtup_all. Qed.
Print Assumptions c15_not_caught_up_scripts.

(* with requirepass set, a connection without valid credentials gets: the early PING/ECHO reply,
   an error, or — for OUTPUT and HEALTHZ only — its handler; never +OK from AUTH *)
Theorem c15_auth : forall outer inner e k,
  e_requirepass e = true -> no_credentials outer k ->
  match gate outer inner e k with
  | VEarly => In outer ["ping"; "echo"]
  | VErr _ => True
  | VAuthOK => False
  | VRun _ _ _ => In outer ["output"; "healthz"]
  end.
Proof. exact gate_unauthenticated. Qed.
Print Assumptions c15_auth.

(* ... and those two handlers neither touch the dataset nor hand out objects *)
Theorem c15_auth_exempt_harmless :
  forallb (fun c => negb (changes c) && negb (reads_objects c)) auth_exempt = true.
Proof. exact exempt_handlers_harmless. Qed.
Print Assumptions c15_auth_exempt_harmless.

Theorem c15_wrong_password_never_auths : forall outer inner e k,
  e_requirepass e = true -> no_credentials outer k -> gate outer inner e k <> VAuthOK.
Proof. exact wrong_password_never_auths. Qed.
Print Assumptions c15_wrong_password_never_auths.

(* the connection's authd flag: the source has exactly one statement that changes it (t38x rejects
   any other), and in the model of that statement a message leaves the flag true only if it was
   true before or the message presented the configured password *)
Theorem c15_authd_only_by_password :
  authd_assignments = 1 /\
  forall outer inner e k, gate_authd outer inner e k = true ->
    k_authd k = true \/ presents_password outer e k.
Proof. exact authd_only_by_password. Qed.
Print Assumptions c15_authd_only_by_password.

(* a connection that was used while no password was configured (or never presented it) is not
   authenticated, and once requirepass is set its next message is gated like a new connection's:
   the configuration may differ from message to message (cm_env) *)
Theorem c15_stale_connection : forall ms m,
  Forall (fun x => ~ presents_password (cm_outer x) (cm_env x) (cmsg_cred false x)) ms ->
  e_requirepass (cm_env m) = true ->
  cm_http_auth m <> Some true -> (cm_outer m = "auth" -> cm_auth_arg_ok m = false) ->
  match gate (cm_outer m) (cm_inner m) (cm_env m) (cmsg_cred (conn_authd ms false) m) with
  | VEarly => In (cm_outer m) ["ping"; "echo"]
  | VErr _ => True
  | VAuthOK => False
  | VRun _ _ _ => In (cm_outer m) ["output"; "healthz"]
  end.
Proof. exact stale_connection_gated. Qed.
Print Assumptions c15_stale_connection.

(* statement order in handleInputCommand: the auth block precedes the lock switch and the handler
   call; the TIMEOUT rewrite precedes the lock switch (so a wrapped command is gated as itself) *)
Theorem c15_gate_order :
  before GAuth GLockSwitch gate_order = true /\ before GAuth GCommand gate_order = true /\
  before GTimeoutRewrite GLockSwitch gate_order = true /\ before GLockSwitch GCommand gate_order = true /\
  before GCommand GWriteAOF gate_order = true.
Proof. exact gate_order_ok. Qed.
Print Assumptions c15_gate_order.

(* protected mode: the refusal is written before the connection's first read (recognised by t38x
   in netServe; the network behaviour itself is exercised by the harness) *)
Theorem c15_protected : protected_refusal_before_first_read = true.
Proof. reflexivity. Qed.
Print Assumptions c15_protected.

(* non-vacuity: SET changes the dataset, GET hands out objects, and a follower refuses SET *)
Example c15_nonvacuous :
  changes "set" = true /\ reads_objects "get" = true /\ changes "jdel" = true /\ reads_objects "test" = true /\
  arm_verdict (arm_of lock_table "set") (mkEnv false true false false false) = Some ENotLeader /\
  gate "get" "get" (mkEnv false false true false true) (mkCred false None false) = VErr EAuthRequired.
Proof. vm_compute. repeat split. Qed.

(* non-vacuity of the connection theorems: GET and SET while no password is configured leave the
   flag false (and satisfy the hypothesis), AUTH with the right password sets it, a wrong one not *)
Example c15_stale_nonvacuous :
  let nopw := mkEnv false false true false false in
  let pw := mkEnv false false true false true in
  let used := [mkCmsg "get" "get" nopw None false; mkCmsg "set" "set" nopw None false] in
  conn_authd used false = false /\
  Forall (fun x => ~ presents_password (cm_outer x) (cm_env x) (cmsg_cred false x)) used /\
  gate "set" "set" pw (cmsg_cred (conn_authd used false) (mkCmsg "set" "set" pw None false)) = VErr EAuthRequired /\
  conn_authd (used ++ [mkCmsg "auth" "auth" pw None true]) false = true /\
  conn_authd (used ++ [mkCmsg "auth" "auth" pw None false]) false = false.
Proof.
  cbv zeta. repeat split; try (vm_compute; reflexivity).
  repeat constructor; intros [H _]; discriminate H.
Qed.
