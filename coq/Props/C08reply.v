(* C08 (continuation) — Model/Prewrite.v makes acknowledgements visible at ONE step, P6: the socket write
   of netServe's reply block (and its goingLive copy), after the pre-write flush.  That the source has no
   other way of sending a reply is decided here, over the table of every write to a socket / unknown
   writer that t38x regenerates from /repo on every run (Gen/SocketWrites.v: function, destination,
   type, what is written, inside a reply block?, on the command path?).  Only theorems, each closed
   by a lemma of Proofs/ReplyPathProofs.v.  The allow-list and its justification: Model/ReplyPath.v. *)
From Coq Require Import String List Bool.
From T38 Require Import Gen.SocketWrites Model.ReplyPath Proofs.ReplyPathProofs.
Import ListNotations.
Open Scope string_scope.

(* no write on the command path lies outside the two post-flush reply blocks, except writes that carry
   no acknowledgement (protected-mode refusal, read error after the reply block, HTTP/WebSocket
   handshake of the parser, the hand-over to the live loop, the MONITOR feed) *)
Theorem c08_no_early_socket_write : early_writes socket_writes = [].
Proof. exact no_early_socket_write. Qed.
Print Assumptions c08_no_early_socket_write.

Theorem c08_on_path_write_classified : forall w, In w socket_writes -> sw_on_path w = true ->
  sw_reply_block w = true \/ allowed w = true.
Proof. exact on_path_write_classified. Qed.
Print Assumptions c08_on_path_write_classified.

(* the reply buffer is sent by exactly the two writes the pre-write model knows (P6 and its goingLive copy) *)
Theorem c08_reply_writes_are_the_two_blocks :
  reply_blocks = 2 /\ length (reply_writes socket_writes) = 2 /\
  forallb (fun w => String.eqb (sw_fn w) "Server.netServe" && String.eqb (sw_arg w) "client.out" && String.eqb (sw_how w) ".Write")
          (reply_writes socket_writes) = true.
Proof. exact reply_writes_are_the_two_blocks. Qed.
Print Assumptions c08_reply_writes_are_the_two_blocks.

Theorem c08_reply_buffer_leaves_through_the_blocks_only : allowed_sends_reply_buffer socket_writes = [].
Proof. exact reply_buffer_leaves_through_the_blocks_only. Qed.
Print Assumptions c08_reply_buffer_leaves_through_the_blocks_only.

(* the handlers' writes end in Client.Write, which appends to client.out and does nothing else *)
Theorem c08_client_write_only_buffers : client_write_body = client_write_buffers.
Proof. exact client_write_only_buffers. Qed.
Print Assumptions c08_client_write_only_buffers.
