(* C01 — Command replies and visible state conform to a sequential keyspace model.
   Only the property theorems; each is closed by a lemma of Proofs/Ks*.v.

   Objects: [exec O true] = the transcription of handleInputCommand's gates + the handlers of crud.go /
   json.go / keys.go / scan.go for the repaired tree (Model/Keyspace.v; [exec O false] = the pinned
   cmdFSET); [sexec_cmd] = the plain map collection -> id -> (object, fields, deadline) of
   Model/Spec.v behind the same command syntax; [abs] forgets the id stored redundantly inside
   every object. [O] is the record of opaque library functions (geojson, sjson/gjson, strconv,
   field.ValueOf): every theorem holds for every O, nothing is assumed about it.

   Full statement aimed at by c01_refines_partial (false as it stands, see c01_refines_ff_refuted):
     forall O p, exists sf rs, run O true [] p = Some (sf, rs) /\ srun O [] p = (abs sf, rs). *)
From T38 Require Import Base.Bytes Base.SMap Model.Field Model.Object Model.Glob Model.Spec Model.Keyspace
  Proofs.KsField Proofs.KsObject Proofs.KsInv Proofs.KsRefine Proofs.KsProgram.

(* One-step simulation: from a well-formed state, a command line answers exactly what the plain
   map answers and leaves a state whose abstraction is the plain map's new state. Covers every
   modelled command: SET FSET DEL PDEL DROP RENAME RENAMENX FLUSHDB EXPIRE PERSIST JSET JDEL
   GET FGET EXISTS FEXISTS TTL TYPE KEYS SCAN (CURSOR LIMIT MATCH ASC DESC NOFIELDS IDS OBJECTS COUNT) JGET,
   with the gate errors and every ">> Args" error. *)
Theorem c01_step_refines : forall O e s args s' r log,
  inv s -> cmd_ok O e args -> exec O true e s args = Done s' r log ->
  sexec_cmd O e (abs s) args = (abs s', r) /\ inv s'.
Proof. exact exec_refines. Qed.
Print Assumptions c01_step_refines.

(* Whole programs from the empty database: no panic, same replies, same final visible state.
   _partial: [prog_ok] excludes PDEL / KEYS patterns whose literal prefix ends in byte 0xFF
   (open finding C12-ff of glob.Parse); nothing else is excluded. *)
Theorem c01_refines_partial : forall O p, prog_ok O p ->
  exists sf rs, run O true [] p = Some (sf, rs) /\ srun O [] p = (abs sf, rs) /\ inv sf.
Proof. exact run_refines_init. Qed.
Print Assumptions c01_refines_partial.

(* ... and that hypothesis cannot be dropped: SET k "ab\xff\x01" STRING a ; PDEL k "ab\xff*" *)
Theorem c01_refines_ff_refuted :
  exists sf rs, run toy_oracle true [] ff_prog = Some (sf, rs) /\ snd (srun toy_oracle [] ff_prog) <> rs.
Proof. exact refines_ff_refuted. Qed.
Print Assumptions c01_refines_ff_refuted.

(* (The former second side condition, SCAN cursors below 2^63 — finding C01-scan-count-cursor,
   `SCAN k CURSOR 18446744073709551615 COUNT` answered Count()+1 — is gone: repaired in /repo by
   3ef88bc + a8face1, the model is the repaired shortcut.) *)

(* An error or a negative answer (nil, 0) changes nothing and logs nothing — every command, every
   argument list, no side condition on patterns. *)
Theorem c01_error_changes_nothing : forall O e s args s' r log,
  inv s -> exec O true e s args = Done s' r log -> is_negative r = true -> s' = s /\ log = [].
Proof. exact negative_changes_nothing. Qed.
Print Assumptions c01_error_changes_nothing.

(* A collection exists iff it holds at least one object: no reachable state has an empty collection. *)
Theorem c01_nonempty_cols : forall O s, Reach O s -> forall k c, get k s = Some c -> c <> [].
Proof. exact nonempty_cols. Qed.
Print Assumptions c01_nonempty_cols.

(* Reachable states are well formed: keys and ids strictly sorted, every object filed under its
   own id, every field list name-sorted (what the B-tree / binary-search code relies on). *)
Theorem c01_reachable_well_formed : forall O s, Reach O s ->
  msorted s /\ forall k c, get k s = Some c -> c <> [] /\ msorted c /\
     forall id o, get id c = Some o -> o_id o = id /\ msorted (o_fields o).
Proof. exact reach_well_formed. Qed.
Print Assumptions c01_reachable_well_formed.

(* The repaired handlers never dereference a nil object... *)
Theorem c01_no_panic : forall O e s args, exec O true e s args <> Panic.
Proof. exact exec_no_panic. Qed.
Print Assumptions c01_no_panic.

(* ... the pinned cmdFSET does (finding F1): SET k a POINT 1 1 ; FSET k missing XX RETURN a 1.
   The repaired handler answers 0 and changes nothing. *)
Theorem c01_no_panic_pinned_refuted :
  exists s, run toy_oracle false [] f1_prog_prefix = Some (s, [ROk str_OK]) /\
            exec toy_oracle false (toy_env 6) s f1_cmd = Panic /\
            exists s' r l, exec toy_oracle true (toy_env 6) s f1_cmd = Done s' r l /\ s' = s /\ r = RInt 0 /\ l = [].
Proof. exact fset_pinned_panics. Qed.
Print Assumptions c01_no_panic_pinned_refuted.

(* What is appended to the log is the command verbatim or nothing. *)
Theorem c01_log_shape : forall O e s args s' r log,
  exec O true e s args = Done s' r log -> log = [] \/ log = [args].
Proof. exact log_shape. Qed.
Print Assumptions c01_log_shape.

(* field.List: Set and Get with their scanning loops and early exits are the plain field map. *)
Theorem c01_field_set_is_map_update : forall l f, msorted l -> fl_set l f = sf_set l f.
Proof. exact fl_set_spec. Qed.
Print Assumptions c01_field_set_is_map_update.

Theorem c01_field_get_is_map_lookup : forall O l name, msorted l -> fl_get O l name = sf_get O l name.
Proof. exact fl_get_spec. Qed.
Print Assumptions c01_field_get_is_map_lookup.

Theorem c01_field_set_sorted : forall l f, msorted l -> msorted (fl_set l f).
Proof. exact fl_set_sorted. Qed.
Print Assumptions c01_field_set_sorted.

Theorem c01_field_set_nozero : forall l f, msorted l -> nozero l -> nozero (fl_set l f).
Proof. exact fl_set_nozero. Qed.
Print Assumptions c01_field_set_nozero.

(* Field values read back what was written (null/true/false in their one spelling); a zero value
   deletes. [shadowed] = a JSON-valued field "a" that itself answers path "b" hides the field
   literally named "a.b" — the documented meaning of dotted names. *)
Theorem c01_field_readback : forall O l n v,
  msorted l -> is_zero v = false -> shadowed O l n = false ->
  fl_get O (fl_set l (n, v)) n = (n, bfield v).
Proof. exact field_readback. Qed.
Print Assumptions c01_field_readback.

Theorem c01_field_zero_deletes : forall O l n v,
  msorted l -> is_zero v = true -> shadowed O l n = false ->
  fl_get O (fl_set l (n, v)) n = zero_field.
Proof. exact field_zero_deletes. Qed.
Print Assumptions c01_field_zero_deletes.

(* The pinned List.Get does not (finding F2): a stored, unshadowed field reads as the zero field. *)
Theorem c01_field_readback_pinned_refuted :
  exists O l n v, msorted l /\ get n l = Some v /\ is_zero v = false /\ shadowed O l n = false /\
                  fl_get_old O l n = zero_field /\ fl_get O l n = (n, v).
Proof. exact fl_get_old_refuted. Qed.
Print Assumptions c01_field_readback_pinned_refuted.

(* The pinned Value.Equals used by Set/FSET to detect "no change" equates different strings (finding C01-eq). *)
Theorem c01_pinned_equals_refuted : exists a b, a <> b /\ str_equals_ci a b = true.
Proof. exact str_equals_ci_refuted. Qed.
Print Assumptions c01_pinned_equals_refuted.

(* The head codec: id and deadline packed by makeHead read back through ID() and Expires(),
   for every id (bytes >= 0x80 right after the varint included) and every int64 deadline. *)
Theorem c01_head_roundtrip : forall kind id ex, int64_range ex ->
  head_id (make_head kind id ex) = Some id /\ head_expires (make_head kind id ex) = Some ex.
Proof. exact head_roundtrip. Qed.
Print Assumptions c01_head_roundtrip.

(* non-vacuity: a reachable state with two collections, a string, a field-bearing point with a
   deadline; the program satisfies prog_ok; the last reply reads the point back *)
Example c01_nonvacuous :
  prog_ok toy_oracle demo_prog /\
  exists sf rs, run toy_oracle true [] demo_prog = Some (sf, rs) /\ length sf = 2%nat /\
     find sf w_k w_a = Some (mkObj w_a (mkGeo true (w_1 ++ w_1)) 1000000005 [(w_speed, mkValue KString w_1)]) /\
     find sf w_g w_b = Some (mkObj w_b (mkGeo false w_speed) 0 []) /\
     nth 2 rs RNil = RBulk (w_1 ++ w_1).
Proof. split; [exact demo_prog_ok | exact demo_run]. Qed.
