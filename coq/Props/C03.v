(* C03 — Restart reproduces exactly the acknowledged state (AOF replay equivalence).
   (1) generic over the dataset type and the command semantics `exec` (the keyspace model is the
   instance): replaying the log equals the live state; a kill at any byte recovers the state after a
   PREFIX of the program. (2) over the tables regenerated from /repo: every command, script
   sub-command and sweeper action that can change the dataset is handed to writeAOF. *)
From Coq Require Import String List Bool ZArith.
From T38 Require Import Base.Bytes Model.Resp Model.Aof Proofs.AofProofs Model.Replay Proofs.ReplayProofs.
From T38 Require Import Model.Tables Gen.LockTable Gen.Dispatch Gen.ScriptTables Gen.Mutators Model.Gate Proofs.GateProofs.
Import ListNotations.

(* the log contains exactly the updating commands; replaying it from the same initial state yields
   the live state, for every program — provided a command that reports "not updated" changed nothing *)
Theorem c03_replay_equiv : forall (S : Type) (exec : S -> cmd -> S * bool),
  (forall s c, snd (exec s c) = false -> fst (exec s c) = s) ->
  forall p s0, replay S exec (logof S exec p s0) s0 = run S exec p s0.
Proof. exact replay_equiv. Qed.
Print Assumptions c03_replay_equiv.

(* killing the process at any instant leaves a byte prefix q of the file: start-up recovers exactly
   the state after some prefix p1 of the program (no partially applied command), truncates the file
   to the end of p1's log, and p1 contains every command whose bytes were wholly written (by C08 that
   includes every acknowledged one) *)
Theorem c03_crash_prefix : forall (S : Type) (exec : S -> cmd -> S * bool),
  (forall s c, snd (exec s c) = false -> fst (exec s c) = s) ->
  forall p s0 q t,
  Forall cmd_ok (logof S exec p s0) -> (q ++ t)%list = encs (logof S exec p s0) ->
  exists p1 p2, p = (p1 ++ p2)%list /\
    recover S exec q s0 = Some (run S exec p1 s0, len (encs (logof S exec p1 s0))) /\
    (len (encs (logof S exec p1 s0)) <= len q)%Z /\
    (forall m, (m <= length (logof S exec p s0))%nat ->
               (len (encs (firstn m (logof S exec p s0))) <= len q)%Z ->
               (m <= length (logof S exec p1 s0))%nat).
Proof. exact crash_prefix. Qed.
Print Assumptions c03_crash_prefix.

Open Scope string_scope.

(* every command string whose handler can change the dataset is in an arm with write = true of a
   table that calls writeAOF when write is set (dev-only commands excepted) *)
Theorem c03_every_change_logged : forall c, logged_check c = true.
Proof. exact every_change_logged. Qed.
Print Assumptions c03_every_change_logged.

(* the same for sub-commands of EVAL / EVALSHA / EVALNA / EVALNASHA *)
Theorem c03_script_writes_logged :
  forall t, In t [script_rw; script_na] -> forall c, script_logged_check t c = true.
Proof. exact script_writes_logged. Qed.
Print Assumptions c03_script_writes_logged.

(* expirations (objects and hooks) go through writeAOF as well: both sweepers reach the log buffer *)
Theorem c03_expiry_logged :
  touches ["aofbuf"] (fn_effects "backgroundExpireObjects") = true /\
  touches ["aofbuf"] (fn_effects "backgroundExpireHooks") = true /\
  touches ["Collection"; "cols"] (fn_effects "backgroundExpireObjects") = true.
Proof. vm_compute. repeat split. Qed.
Print Assumptions c03_expiry_logged.

(* non-vacuity: a toy instance (a counter; command [x] adds, [] is a no-op) cut inside its 2nd record *)
Example c03_nonvacuous :
  let exec := fun (s : Z) (c : cmd) => match c with [[x]] => ((s + Z.of_N x)%Z, true) | _ => (s, false) end in
  let p := [[[1%N]]; []; [[2%N]]; [[3%N]]] in
  logof Z exec p 0%Z = [[[1%N]]; [[2%N]]; [[3%N]]] /\
  recover Z exec (firstn 20 (encs (logof Z exec p 0%Z))) 0%Z = Some (1%Z, 11%Z) /\
  changes "jset" = true /\ changes "sethook" = true.
Proof. vm_compute. repeat split. Qed.
