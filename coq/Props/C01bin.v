(* C01, continuation — "field values read back exactly what was written", at the level of the
   PACKED field list of internal/field/list_binary.go (one allocation: uvarint size header, then
   per entry a shared-name number, a kind byte and, for numbers / strings / JSON, a length-prefixed
   data string).  Props/C01.v speaks about field.List as the name-sorted entry sequence
   (Model/Field.v); this file closes the gap to the bytes (Model/FieldBin.v: ptob, uvarint,
   binary.PutUvarint, putfield, delfield, the entry loop of Set / Get / Scan / Len, Weight).
   Sizes are N: every theorem holds for every body size below 2^63 (a Go slice cannot be longer),
   across the header-length boundaries 2^7, 2^14, 2^21, 2^28, ...
   Only the property theorems; each is closed by a lemma of Proofs/FieldBin*.v. *)
From Coq Require Import String.
From T38 Require Import Base.Bytes Base.SMap Model.Field Model.Object Model.FieldBin
  Proofs.KsField Proofs.FieldBinProofs Gen.FieldBin Proofs.FieldBinTied.
Local Open Scope N_scope.

(* The size header: a reader whose window is at least as long as the longest header
   (binary.PutUvarint of a uint64: 10 bytes) recovers exactly the body, for every body. *)
Theorem c01_bin_header_roundtrip : forall peek body,
  max_header_len <= peek -> lenN body < two63 -> ptob peek (Some (buf_of body)) = Val body.
Proof. exact ptob_roundtrip. Qed.
Print Assumptions c01_bin_header_roundtrip.

Theorem c01_bin_weight_roundtrip : forall peek body,
  max_header_len <= peek -> lenN body < two64 -> weight peek (Some (buf_of body)) = Val (lenN (buf_of body)).
Proof. exact weight_roundtrip. Qed.
Print Assumptions c01_bin_weight_roundtrip.

(* How long the header is: one more byte at each of 2^7, 2^14, 2^21, 2^28; never more than 10. *)
Theorem c01_bin_header_boundaries : forall x, x < two64 ->
  (header_len x = 1 <-> x < 2 ^ 7) /\
  (header_len x = 2 <-> 2 ^ 7 <= x < 2 ^ 14) /\
  (header_len x = 3 <-> 2 ^ 14 <= x < 2 ^ 21) /\
  (header_len x = 4 <-> 2 ^ 21 <= x < 2 ^ 28) /\
  (header_len x = 5 <-> 2 ^ 28 <= x < 2 ^ 35) /\
  1 <= header_len x <= max_header_len.
Proof. exact header_len_boundaries. Qed.
Print Assumptions c01_bin_header_boundaries.

(* A reader that looks at fewer bytes than the writer emitted does NOT: the body reads as empty
   (no panic, no error) ... *)
Theorem c01_bin_short_window_reads_empty : forall peek body,
  peek < header_len (lenN body) ->
  ptob peek (Some (buf_of body)) = Val [] /\ weight peek (Some (buf_of body)) = Val 0.
Proof. exact ptob_short_peek. Qed.
Print Assumptions c01_bin_short_window_reads_empty.

(* ... e.g. a 3-byte window (binary.MaxVarintLen16) from 2^21 bytes on, where the 10-byte window
   still reads the body back; such bodies exist. *)
Theorem c01_bin_short_window_refuted :
  (exists body : bytes, lenN body = 2 ^ 21) /\
  forall peek body, peek <= 3 -> 2 ^ 21 <= lenN body < two63 ->
    ptob max_header_len (Some (buf_of body)) = Val body /\ body <> [] /\
    ptob peek (Some (buf_of body)) = Val [] /\ weight peek (Some (buf_of body)) = Val 0.
Proof. exact short_window_refuted. Qed.
Print Assumptions c01_bin_short_window_refuted.

Theorem c01_bin_short_window_list_refuted : forall peek sn G l name,
  peek <= 3 -> 2 ^ 21 <= lenN (enc_body sn l) < two64 ->
  bl_scan peek sn (enc sn l) = Val [] /\ bl_get peek sn G (enc sn l) name = Val zero_field /\
  bl_len peek (enc sn l) = Val 0 /\ weight peek (enc sn l) = Val 0.
Proof. exact short_window_list_refuted. Qed.
Print Assumptions c01_bin_short_window_list_refuted.

(* decode . encode = id: Scan on the packed form of any entry sequence shows that sequence
   (kinds_ok: one of the six kinds, a name the shared-name table knows; fits: below 2^63 bytes). *)
Theorem c01_bin_scan_roundtrip : forall peek sn l,
  max_header_len <= peek -> kinds_ok sn l -> fits sn l -> bl_scan peek sn (enc sn l) = Val (fl_scan l).
Proof. exact bl_scan_enc. Qed.
Print Assumptions c01_bin_scan_roundtrip.

Theorem c01_bin_len : forall peek sn l,
  max_header_len <= peek -> kinds_ok sn l -> fits sn l -> bl_len peek (enc sn l) = Val (N.of_nat (length l)).
Proof. exact bl_len_enc. Qed.
Print Assumptions c01_bin_len.

(* List.Get and List.Set on the bytes are Model.Field's fl_get / fl_set through the codec:
   putfield / delfield splice the entry in or out and write the header of the NEW total length. *)
Theorem c01_bin_get_refines : forall peek sn G l name,
  max_header_len <= peek -> kinds_ok sn l -> fits sn l -> bl_get peek sn G (enc sn l) name = Val (fl_get G l name).
Proof. exact bl_get_enc. Qed.
Print Assumptions c01_bin_get_refines.

Theorem c01_bin_set_refines : forall peek sn l f,
  max_header_len <= peek -> kinds_ok sn l -> fits sn l -> kind_ok (snd f) ->
  bl_set peek sn (enc sn l) f = Val (enc sn (fl_set l f)).
Proof. exact bl_set_enc. Qed.
Print Assumptions c01_bin_set_refines.

(* Field values read back exactly what was written, through the bytes, at every size. *)
Theorem c01_bin_readback : forall peek sn G l n v,
  max_header_len <= peek -> kinds_ok sn l -> fits sn l -> entry_ok sn (n, v) -> fits sn (fl_set l (n, v)) ->
  msorted l -> is_zero v = false -> shadowed G l n = false ->
  exists p', bl_set peek sn (enc sn l) (n, v) = Val p' /\ bl_get peek sn G p' n = Val (n, bfield v).
Proof. exact packed_readback. Qed.
Print Assumptions c01_bin_readback.

(* The tie to the source: the windows, the writer buffers and the uvarint loop found in
   /repo/internal/field/list_binary.go by t38x (Gen/FieldBin.v) are the ones assumed above ... *)
Theorem c01_bin_source_tied : source_tied.
Proof. exact source_is_tied. Qed.
Print Assumptions c01_bin_source_tied.

(* ... so every window of the source reads every header back. *)
Theorem c01_bin_source_windows_roundtrip : forall fn l c body,
  In (fn, l, c) header_windows -> lenN body < two63 ->
  ptob l (Some (buf_of body)) = Val body /\ weight l (Some (buf_of body)) = Val (lenN (buf_of body)).
Proof. exact source_windows_roundtrip. Qed.
Print Assumptions c01_bin_source_windows_roundtrip.

(* non-vacuity: a table, a two-entry list, its 7 packed bytes; the hypotheses hold for it *)
Example c01_bin_nonvacuous :
  (enc toy_sn toy_list = Some [6; 0; 2; 1; 55; 1; 4] /\
   bl_scan 10 toy_sn (enc toy_sn toy_list) = Val toy_list /\
   bl_set 10 toy_sn (enc toy_sn toy_list) ([97], zero_value) = Val (Some [2; 1; 4]) /\
   bl_scan 0 toy_sn (enc toy_sn toy_list) = Val []) /\
  (kinds_ok toy_sn toy_list /\ fits toy_sn toy_list /\ msorted toy_list /\
   entry_ok toy_sn ([98], mkValue KString [120]) /\ fits toy_sn (fl_set toy_list ([98], mkValue KString [120]))).
Proof. split; [exact toy_packed | exact toy_hyps]. Qed.
