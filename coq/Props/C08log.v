(* C08 (continuation of Props/C08.v) — "that command's bytes have already been written to the
   append-only file" presupposes that the command is handed to the log at all.  Props/C08.v is about
   the order (append, flush, reply) for a command that reaches writeAOF's append; this file is about
   EVERY data-modifying command and variant reaching it:

     * over the tables t38x regenerates from /repo on every run (handleInputCommand's lock switch,
       Server.command's switch, the three tile38.call switches, the mutation sites of every handler);
     * over the keyspace handlers of Model/Keyspace.v (writeAOF's `!d.updated` early return): a command
       that changed the dataset is logged, and the record is its own argument list.

   harness/cmd/c08 (sweep.go) ties both to the server: for every data-modifying command and variant,
   and along random histories, "dump changed => the command's bytes are in appendonly.aof when the
   reply arrives" (oracle, + kill -9 / restart equality) and "Keyspace.exec logs <=> the file grew"
   (correspondence).  Only theorems; each closed by a lemma of Proofs/GateProofs.v or
   Proofs/LoggedProofs.v. *)
From Coq Require Import String List Bool ZArith.
From T38 Require Import Model.Tables Gen.LockTable Gen.Dispatch Gen.ScriptTables Gen.AuthGate Gen.Mutators
  Model.Gate Proofs.GateProofs Proofs.LoggedProofs.
From T38 Require Base.Bytes Model.Spec Model.Keyspace Proofs.KsInv Proofs.KsProgram Proofs.KsReplay.
Import ListNotations.
Open Scope string_scope.

(* every command word c (all strings): if the handler Server.command dispatches c to can modify the
   dataset (collections, objects, hooks, channels — Gen/Mutators.v), then c is listed in an arm of
   handleInputCommand's lock switch that sets write = true, and `if write { s.writeAOF(...) }` follows
   the handler call.  (dev_only = shutdown / massinsert / sleep.) *)
Theorem c08_every_change_logged : forall c, logged_check c = true.
Proof. exact every_change_logged. Qed.
Print Assumptions c08_every_change_logged.

(* ... as a statement about the gate model: whatever the configuration and the credentials, a
   data-modifying command that is let through runs with write = true, in a table that logs on
   write, and the writeAOF call comes after the handler *)
Theorem c08_changing_cmd_reaches_writeaof : forall outer inner e k l w fn,
  gate outer inner e k = VRun l w fn ->
  changes inner = true -> in_strs inner dev_only = false ->
  w = true /\ t_logs_on_write lock_table = true /\ before GCommand GWriteAOF gate_order = true.
Proof. exact changing_cmd_reaches_writeaof. Qed.
Print Assumptions c08_changing_cmd_reaches_writeaof.

(* the same for every sub-command a script may issue through tile38.call (EVAL/EVALSHA: script_rw,
   EVALNA/EVALNASHA: script_na) *)
Theorem c08_script_writes_logged :
  forall t, In t [script_rw; script_na] -> forall c, script_logged_check t c = true.
Proof. exact script_writes_logged. Qed.
Print Assumptions c08_script_writes_logged.

Theorem c08_changing_script_cmd_reaches_writeaof : forall t c e l w fn,
  In t [script_rw; script_na] ->
  script_gate t c e = SRun l w fn -> changes_script c = true ->
  w = true /\ t_logs_on_write t = true.
Proof. exact changing_script_cmd_reaches_writeaof. Qed.
Print Assumptions c08_changing_script_cmd_reaches_writeaof.

(* the write arm is exactly the set of commands whose handler can modify the dataset *)
Theorem c08_write_arm_is_the_changing_set :
  forallb (fun c => Bool.eqb (changes c && negb (in_strs c dev_only)) (in_strs c (write_arm_cmds lock_table)))
          all_command_names = true /\
  a_write (t_default lock_table) = false.
Proof. exact write_arm_is_the_changing_set. Qed.
Print Assumptions c08_write_arm_is_the_changing_set.

(* the lock-table arm Model/Keyspace.v transcribes by hand is the regenerated one (hook and channel
   commands are not keyspace commands) *)
Theorem c08_ks_arm_matches_table :
  forallb (fun c => Bool.eqb (ks_is_write c) (a_write (arm_of lock_table c) && negb (in_strs c hook_chan_cmds)))
          all_command_names = true.
Proof. exact ks_arm_matches_table. Qed.
Print Assumptions c08_ks_arm_matches_table.

(* handler level, every keyspace command line and variant (SET NX/XX, FSET XX, DEL, PDEL, DROP,
   RENAME onto a free or an existing key, RENAMENX, FLUSHDB, EXPIRE, PERSIST, JSET/JDEL on strings
   and on GeoJSON objects; any library behaviour O), every well-formed state: if the command changed
   the dataset then writeAOF appended exactly the command's argument list — the handler reported
   updated = true and the command is in the write arm *)
Theorem c08_changed_logged : forall O e s args s' r log,
  KsInv.inv s -> Keyspace.exec O true e s args = Keyspace.Done s' r log -> s' <> s -> log = [args].
Proof. exact ks_changed_logged. Qed.
Print Assumptions c08_changed_logged.

Theorem c08_changed_logged_flag : forall O e s args,
  KsInv.inv s -> fst (KsReplay.ks_exec O e s args) <> s -> snd (KsReplay.ks_exec O e s args) = true.
Proof. exact ks_changed_logged_flag. Qed.
Print Assumptions c08_changed_logged_flag.

(* not vacuous: with two collections k and g stored, RENAME k g (the overwrite variant) and
   RENAMENX k n change the keyspace and are logged with their own argument list; RENAMENX k g
   changes nothing and is not logged *)
Example c08_rename_variants :
  exists s, Keyspace.run KsProgram.toy_oracle true [] two_keys = Some (s, [Spec.ROk Spec.str_OK; Spec.ROk Spec.str_OK]) /\
    (exists s' r, Keyspace.exec KsProgram.toy_oracle true (KsProgram.toy_env 6%Z) s [w_RENAME; KsProgram.w_k; KsProgram.w_g]
                  = Keyspace.Done s' r [[w_RENAME; KsProgram.w_k; KsProgram.w_g]] /\ s' <> s) /\
    (exists s' r, Keyspace.exec KsProgram.toy_oracle true (KsProgram.toy_env 6%Z) s [w_RENAMENX; KsProgram.w_k; w_n]
                  = Keyspace.Done s' r [[w_RENAMENX; KsProgram.w_k; w_n]] /\ s' <> s) /\
    (exists r, Keyspace.exec KsProgram.toy_oracle true (KsProgram.toy_env 6%Z) s [w_RENAMENX; KsProgram.w_k; KsProgram.w_g]
               = Keyspace.Done s r []).
Proof. exact rename_variants_witness. Qed.
