(* C10 — Notifications and pub/sub: nothing lost, nothing duplicated, in write order.
   Only the property theorems; each is closed by a lemma of Proofs/Queues*.v. *)
From Coq Require Import List NArith ZArith Lia.
From T38 Require Import Model.Queues Proofs.QueuesHookProofs Proofs.QueuesFifoProofs.
Import ListNotations.

(* Webhooks.  For every interleaving of writes (each enqueuing any messages for any hooks) with the
   two halves of Hook.proc of every hook's manager, and every endpoint outcome list, as long as the
   history stays inside the 30 s retention: the messages generated for hook h by the writes, in
   write order, are exactly  delivered ++ being-sent ++ still-queued.  So what has been delivered
   is a prefix of what was generated: in order, nothing skipped, nothing twice.  The history may
   contain process restarts (queue.db survives, Server.qidx is read back from "hook:idx"); `quiet`
   restricts them to instants at which no manager is between its two transactions (what a manager
   has deleted and not yet sent or re-inserted when the process is killed is lost: stated limit). *)
Theorem c10_hook_order : forall evs h, in_retention evs -> quiet hq_init evs ->
  let q := qrun hq_init evs in
  enq_msgs h evs = map e_msg (q_delivered q h) ++ map e_msg (pending q h).
Proof. exact hook_order. Qed.
Print Assumptions c10_hook_order.

(* ... and once the endpoint answers again, the manager's next rounds deliver all of it. *)
Theorem c10_hook_eventually_all : forall evs h t1 t2 t3,
  in_retention (evs ++ [Mgr h t1 []; Mgr h t2 []; Mgr h t3 []]) -> quiet hq_init evs ->
  let q := qrun hq_init (evs ++ [Mgr h t1 []; Mgr h t2 []; Mgr h t3 []]) in
  map e_msg (q_delivered q h) = enq_msgs h evs /\ q_db q h = [] /\ taken_list q h = [].
Proof. exact hook_eventually_all. Qed.
Print Assumptions c10_hook_eventually_all.

(* Without any assumption on time: the keys of the delivered entries are strictly increasing
   (so: in queue order and never twice), whatever expires. *)
Theorem c10_hook_no_duplicate_in_order : forall evs h,
  incr (idxs (q_delivered (qrun hq_init evs) h)).
Proof. exact delivered_increasing. Qed.
Print Assumptions c10_hook_no_duplicate_in_order.

(* An entry owed to a hook leaves the queue only by being delivered or by one of the two TTL tests
   (expired when proc reads the queue; remaining TTL <= 0 when proc re-inserts after a failure). *)
Theorem c10_ttl_only_loss : forall q ev h e, HInv q ->
  (forall now, ev = Restart now -> q_taken q h = None) ->
  In e (pending q h) ->
  In e (pending (qstep q ev) h) \/ In e (q_delivered (qstep q ev) h) \/ (e_exat e <= qtime ev)%Z.
Proof. exact ttl_only_loss. Qed.
Print Assumptions c10_ttl_only_loss.

(* (HInv is an invariant of every reachable queue state, so the hypothesis above is satisfiable
   and always satisfied.) *)
Theorem c10_hook_invariant : forall evs, HInv (qrun hq_init evs).
Proof. exact qrun_hinv. Qed.
Print Assumptions c10_hook_invariant.

(* The counter a restarted process reads back ("hook:idx" in queue.db) is the counter the dead process
   had in memory, after every enqueue: keys are never reused across a restart (c10_hook_order relies
   on it: with a lagging persisted counter the first batch after a restart would overwrite, or be
   overwritten by, the entries still queued from before). *)
Theorem c10_qidx_persisted : forall evs, q_pidx (qrun hq_init evs) = q_idx (qrun hq_init evs).
Proof. exact qidx_persisted. Qed.
Print Assumptions c10_qidx_persisted.

(* Pub/sub.  For publishes that do not overlap (geofence events are published under the write lock)
   interleaved arbitrarily with (un)subscriptions of any targets, the second phase of Publish and
   the subscriber goroutines: what target t has on its socket, in its msgs slice or in the pending
   snapshot is exactly, in order, one copy per matching subscription of every publish whose
   snapshot was taken while t was registered (registration precedes the subscribe reply). *)
Theorem c10_pubsub_fifo : forall pm evs t,
  serialised pm ps_init evs = true ->
  ps_view (prun pm ps_init evs) t = expected pm t (mkTsubs [] []) evs.
Proof. exact pubsub_fifo. Qed.
Print Assumptions c10_pubsub_fifo.

(* In particular the (un)subscriptions of other connections -- including UNSUBSCRIBE / PUNSUBSCRIBE of
   names the sender never subscribed to, which liveSubscription passes to unregister all the same --
   change nothing for t: a subscriber acknowledged before a publish, and that has not itself
   unsubscribed, receives it whatever the others do. *)
Theorem c10_pubsub_foreign_unsubscribe : forall pm evs t,
  serialised pm ps_init evs = true ->
  ps_view (prun pm ps_init evs) t = expected pm t (mkTsubs [] []) (own_history t evs).
Proof. exact pubsub_foreign_unsubscribe. Qed.
Print Assumptions c10_pubsub_foreign_unsubscribe.

(* example: Y (target 0) is the only subscriber of channel 7; X (target 1) unsubscribes from 7 and from
   pattern 0 without ever having subscribed; the publish still reaches Y *)
Example c10_foreign_unsubscribe_example :
  let pm := fun p c : N => N.eqb (N.div c 100) p in
  let evs := [PReg false 7%N 0%nat; PReg true 0%N 2%nat; PUnreg false 7%N 1%nat; PUnreg true 0%N 1%nat;
              PSnap 7%N 42%N; PAppend; PAppend; PDrain 0%nat] in
  map pm_body (ps_out (prun pm ps_init evs) 0%nat) = [42%N].
Proof. vm_compute. reflexivity. Qed.

Theorem c10_pubsub_drained : forall pm evs t,
  serialised pm ps_init evs = true -> ps_snap (prun pm ps_init evs) = [] ->
  ps_out (prun pm ps_init (evs ++ [PDrain t])) t = expected pm t (mkTsubs [] []) evs.
Proof. exact pubsub_drained. Qed.
Print Assumptions c10_pubsub_drained.

(* Live fences: lstack -> liveBuffer.details -> socket is a composition of FIFO stages; a live
   connection registered on key k receives every later write on k in write order, exactly once. *)
Theorem c10_live_fifo : forall pre evs b k,
  let s0 := lstep (lrun (mkLV [] [] (fun _ => []) (fun _ => [])) pre) (LReg b k) in
  untouched b pre = true -> untouched b evs = true ->
  lv_view (lrun s0 evs) b k = lv_view s0 b k ++ writes_on k evs.
Proof. exact live_fifo. Qed.
Print Assumptions c10_live_fifo.

(* non-vacuity: two writes, a failing endpoint in between, then recovery *)
Example c10_nonvacuous :
  let evs := [Enq 0 [(1, 10); (2, 20); (1, 11)]; Mgr 1 5 []; Enq 6 [(1, 12)]; Mgr 1 7 [true; false];
              Mgr 1 600 []; Mgr 1 601 []]%N%Z in
  in_retention evs /\ quiet hq_init evs /\ enq_msgs 1%N evs = [10; 11; 12]%N /\
  map e_msg (q_delivered (qrun hq_init evs) 1%N) = [10; 11; 12]%N /\
  map e_msg (q_delivered (qrun hq_init (firstn 4 evs)) 1%N) = [10]%N /\
  map e_msg (pending (qrun hq_init (firstn 4 evs)) 1%N) = [11; 12]%N.
Proof.
  cbv zeta. split; [|split].
  - unfold in_retention. repeat (apply Forall_cons; [cbn [qtime]; unfold hook_ttl; lia|]). apply Forall_nil.
  - cbn [quiet]. tauto.
  - vm_compute. auto.
Qed.

(* a restart while the endpoint is failing: the batch queued before it and the one queued after it both
   arrive, in order, once the endpoint recovers *)
Example c10_restart_while_failing :
  let evs := [Enq 0 [(1, 10); (1, 11)]; Mgr 1 1 []; Mgr 1 2 [false]; Restart 500; Enq 600 [(1, 12); (1, 13)];
              Mgr 1 700 []; Mgr 1 701 []]%N%Z in
  in_retention evs /\ quiet hq_init evs /\
  map e_msg (q_delivered (qrun hq_init evs) 1%N) = [10; 11; 12; 13]%N /\
  map e_idx (q_delivered (qrun hq_init evs) 1%N) = [1; 2; 3; 4]%N.
Proof.
  cbv zeta. split; [|split].
  - unfold in_retention. repeat (apply Forall_cons; [cbn [qtime]; unfold hook_ttl; lia|]). apply Forall_nil.
  - cbn [quiet]. repeat split. intros h. cbn. unfold updf. destruct (N.eqb h 1); reflexivity.
  - vm_compute. auto.
Qed.

(* TTL expiry really loses: the same history with the retry after 31 s delivers only the first *)
Example c10_ttl_loss_example :
  let evs := [Enq 0 [(1, 10); (1, 11)]; Mgr 1 5 []; Mgr 1 7 [true; false]; Mgr 1 31000 []; Mgr 1 31001 []]%N%Z in
  map e_msg (q_delivered (qrun hq_init evs) 1%N) = [10]%N /\ pending (qrun hq_init evs) 1%N = [].
Proof. vm_compute. auto. Qed.
