(* C06 (continued) — follow generations and followers without a log.
   A caught-up follower is an exact copy of its CURRENT leader: every FOLLOW that changes the leader starts a
   new generation (s.followc); the follow() goroutines of earlier generations are not cancelled, they end
   where they compare their generation with s.followc.  Model/FollowGen.v makes the attempts of all
   generations explicit; where they are guarded is read off the source (Gen/FollowSteps.v, regenerated
   by t38x on every run) - the first three theorems are that tie.  The leader's log is supplied by the
   environment at every step that talks to a leader, so every statement below holds for every leader
   behaviour.  Only [Theorem name : statement. Proof. exact lemma. Qed.] here. *)
From Coq Require Import List ZArith Bool String.
From T38 Require Import Base.Bytes Gen.Consts Gen.FollowSteps Model.Follow Model.FollowGen Proofs.FollowGenProofs.
Import ListNotations.
Open Scope list_scope.
Open Scope Z_scope.

(* ---- the tie to the source ---- *)

(* a generation that is no longer s.followc returns errNoLongerFollowing before it touches the server in all five
   places where an attempt comes back from the network or from another locked section: at the top of followStep, in
   followCheckSome and followHandleCommand (right after s.mu is taken), between followCheckSome's return and the first
   caught-up test, and in the read loop before faofsz / the flag are written (the last two since
   proposed_fixes/C06-stale-generation-flag.diff; the code before it is [pinned_cfg], see c06g_stale_flag_pinned_refuted) *)
Theorem c06g_guards_from_source :
  cfg_of follow_step follow_check_some follow_handle_command = proved_cfg.
Proof. exact gen_guards_transcribed. Qed.
Print Assumptions c06g_guards_from_source.

(* followStartOver: with a log - recreate it, then followReset; without a log (--appendonly no) - followReset *)
Theorem c06g_start_over_from_source :
  forall aof, so_run aof follow_start_over = Some (proved_ops aof).
Proof. exact start_over_transcribed. Qed.
Print Assumptions c06g_start_over_from_source.

(* ... so EVERY start-over, in both configurations, leaves an empty dataset and aofsz = 0 (and an empty log if
   there is one): nothing the follower held survives a resync from position zero *)
Theorem c06g_start_over_resets :
  forall (st : Type) (st0 : st) aof (d : gdata st) ops,
  so_run aof follow_start_over = Some ops ->
  let d' := start_over st st0 ops d in
  d_mem st d' = st0 /\ d_aofsz st d' = 0 /\
  (aof = true -> d_file st d' = []) /\ (aof = false -> d_file st d' = d_file st d).
Proof.
  intros st st0 aof d ops H. rewrite start_over_transcribed in H. inversion H; subst.
  exact (start_over_resets st st0 aof d).
Qed.
Print Assumptions c06g_start_over_resets.

(* ---- stale generations ---- *)

(* one step of an attempt whose generation is not s.followc - whichever step, against whichever leader log, in
   either --appendonly configuration - leaves the follower's log, dataset and aofsz (and s.followc) as they are *)
Theorem c06g_stale_attempt_inert :
  forall digest md5 digest_eqb csz st st0 app aof ops (w : world st) e i a,
  actor e = Some i -> nth_error (w_atts st w) i = Some a -> a_gen a <> w_cur st w ->
  w_data st (gstep digest md5 digest_eqb csz st st0 app proved_cfg aof ops w e) = w_data st w /\
  w_cur st (gstep digest md5 digest_eqb csz st st0 app proved_cfg aof ops w e) = w_cur st w.
Proof.
  intros. eapply stale_inert; eauto.
Qed.
Print Assumptions c06g_stale_attempt_inert.

(* ... and so does any sequence of steps of any number of stale attempts: after a newer FOLLOW has been accepted the
   earlier generations never change the follower's state again, however long they go on *)
Theorem c06g_stale_attempts_inert :
  forall digest md5 digest_eqb csz st st0 app aof ops es (w : world st),
  Forall (stale_ev (gens st w) (w_cur st w)) es ->
  w_data st (grun digest md5 digest_eqb csz st st0 app proved_cfg aof ops w es) = w_data st w /\
  w_cur st (grun digest md5 digest_eqb csz st st0 app proved_cfg aof ops w es) = w_cur st w.
Proof.
  intros. eapply stale_inert_run; eauto.
Qed.
Print Assumptions c06g_stale_attempts_inert.

(* the caught-up flag: no step of a stale attempt raises it (a stale attempt may still clear it: GClear) ... *)
Theorem c06g_stale_flag_inert :
  forall digest md5 digest_eqb csz st st0 app aof ops (w : world st) e i a,
  actor e = Some i -> nth_error (w_atts st w) i = Some a -> a_gen a <> w_cur st w ->
  w_cup st (gstep digest md5 digest_eqb csz st st0 app proved_cfg aof ops w e) = true -> w_cup st w = true.
Proof. exact stale_flag_inert. Qed.
Print Assumptions c06g_stale_flag_inert.

(* ... and no sequence of steps of stale attempts does: if the follower reports caught up after them it did before *)
Theorem c06g_stale_flag_inert_run :
  forall digest md5 digest_eqb csz st st0 app aof ops es (w : world st),
  Forall (stale_ev (gens st w) (w_cur st w)) es ->
  w_cup st (grun digest md5 digest_eqb csz st st0 app proved_cfg aof ops w es) = true -> w_cup st w = true.
Proof. exact stale_flag_inert_run. Qed.
Print Assumptions c06g_stale_flag_inert_run.

(* in general: whenever the two places after the round trips are guarded (c06g_guards_from_source says they are) *)
Theorem c06g_stale_flag_if_guarded :
  forall digest md5 digest_eqb csz st st0 app cfg aof ops (w : world st) e i a,
  c_aofg cfg = true -> c_flagg cfg = true ->
  actor e = Some i -> nth_error (w_atts st w) i = Some a -> a_gen a <> w_cur st w ->
  w_cup st (gstep digest md5 digest_eqb csz st st0 app cfg aof ops w e) = true -> w_cup st w = true.
Proof. exact stale_flag_partial. Qed.
Print Assumptions c06g_stale_flag_if_guarded.

(* ---- followers without a log (--appendonly no) ---- *)

(* followCheckSome of the current generation on a follower without a log: WHATEVER it holds in memory (no premise
   about d_mem), it holds nothing afterwards and resumes at position 0 *)
Theorem c06g_noaof_resync_resets :
  forall digest md5 digest_eqb csz st st0 app, 0 < csz ->
  forall cfg (w : world st) i a sz l,
  nth_error (w_atts st w) i = Some a -> a_gen a = w_cur st w -> a_ph a = PServer sz ->
  noaof_wf st (w_data st w) ->
  let w' := gstep digest md5 digest_eqb csz st st0 app cfg false proved_ops w (GCheck i l) in
  w_data st w' = {| d_file := []; d_mem := st0; d_aofsz := 0 |} /\
  w_cup st w' = w_cup st w /\ w_cur st w' = w_cur st w /\
  nth_error (w_atts st w') i = Some {| a_gen := a_gen a; a_ph := PChecked sz 0 |}.
Proof. exact noaof_check_resets. Qed.
Print Assumptions c06g_noaof_resync_resets.

(* convergence from ANY dataset: followCheckSome + the AOF handshake of the current generation against a leader whose
   log is l, then any interleaving of deliveries, flag updates and leader appends: when everything handed over has been
   handled, the dataset is the replay of l ++ what the leader logged since, there is still no log and aofsz = 0 *)
Theorem c06g_noaof_converge :
  forall digest md5 digest_eqb csz st st0 app, 0 < csz ->
  forall cfg (w : world st) i a l es,
  nth_error (w_atts st w) i = Some a -> a_gen a = w_cur st w -> a_ph a = PServer (flen l) ->
  noaof_wf st (w_data st w) -> Forall (ses_ev i) es ->
  let w' := grun digest md5 digest_eqb csz st st0 app cfg false proved_ops
              (gstep digest md5 digest_eqb csz st st0 app cfg false proved_ops
                 (gstep digest md5 digest_eqb csz st st0 app cfg false proved_ops w (GCheck i l)) (GAof i l)) es in
  exists s, phase_of st w' i = Some (PStream s) /\
    (gs_rest s = [] ->
     d_mem st (w_data st w') = replay st st0 app (l ++ fed es) /\ gs_done s = l ++ fed es) /\
    noaof_wf st (w_data st w').
Proof. exact noaof_converge. Qed.
Print Assumptions c06g_noaof_converge.

(* ---- concrete instances (identity "MD5", toy command semantics of Model/Follow.v) ---- *)
Definition idm (b : bytes) : bytes := b.
Definition trun csz cfg aof := grun bytes idm bytes_eqb csz toy_st [] toy_app cfg aof proved_ops.
Definition w0 (f : file) : world toy_st :=
  {| w_data := {| d_file := f; d_mem := replay toy_st [] toy_app f; d_aofsz := flen f |};
     w_cup := false; w_cur := 0; w_atts := [] |}.
Definition drained_att (w : world toy_st) (i : nat) : bool :=
  match phase_of toy_st w i with Some (PStream s) => match gs_rest s with [] => true | _ => false end | _ => false end.

(* the hypotheses of c06g_noaof_converge are satisfiable by a non-trivial state: a follower without a log that holds
   unrelated data (collection 9) ends with the leader's two objects and nothing else *)
Example c06g_noaof_example :
  let l := [[1;7;1;5]; [1;7;2;6]]%N in
  let w := {| w_data := {| d_file := []; d_mem := [(9, [(9, 9)])]%N; d_aofsz := 0 |}; w_cup := false; w_cur := 1;
              w_atts := [{| a_gen := 1; a_ph := PServer (flen l) |}] |} in
  let w' := trun c_checksumsz proved_cfg false w [GCheck 0 l; GAof 0 l; GDeliver 0; GDeliver 0; GFlag 0] in
  noaof_wf toy_st (w_data toy_st w) /\ drained_att w' 0 = true /\ w_cup toy_st w' = true /\
  d_mem toy_st (w_data toy_st w') = [(7, [(1, 5); (2, 6)])]%N /\ d_file toy_st (w_data toy_st w') = [].
Proof. vm_compute. repeat split. Qed.

(* the schedule of c06g_stale_attempts_inert on a concrete state: F follows A and catches up; the connection drops and
   the reconnect attempt of generation 1 waits for A's SERVER reply; FOLLOW B: generation 2 catches up with B; A's reply
   arrives: generation 1 ends in followCheckSome and F still holds exactly B's dataset and log *)
Definition la : file := [[1;7;1;5]; [1;7;2;6]]%N.
Definition lb : file := [[1;8;1;1]; [1;9;1;2]]%N.
Definition repoint_while_held : list gev :=
  [GFollow; GTopCheck 0; GClear 0; GServer 0 la; GCheck 0 la; GAof 0 la; GDeliver 0; GDeliver 0; GFlag 0;
   GFail 0; GTopCheck 0; GClear 0;
   GFollow; GTopCheck 1; GClear 1; GServer 1 lb; GCheck 1 lb; GAof 1 lb; GDeliver 1; GDeliver 1; GFlag 1;
   GServer 0 la; GCheck 0 la; GAof 0 la; GDeliver 0].

Example c06g_repoint_while_held_example :
  let w := trun c_checksumsz proved_cfg true (w0 []) repoint_while_held in
  w_cur toy_st w = 2%nat /\ gens toy_st w = [1; 2]%nat /\ phase_of toy_st w 0 = Some PDead /\
  drained_att w 1 = true /\ w_cup toy_st w = true /\
  d_mem toy_st (w_data toy_st w) = replay toy_st [] toy_app lb /\ d_file toy_st (w_data toy_st w) = lb.
Proof. vm_compute. repeat split. Qed.

(* ---- refutations ---- *)

(* WITHOUT the generation test in followCheckSome (c_check = false) the same schedule wipes the follower: the stale
   attempt's followCheckSome finds a log that is not A's, starts over, and F - following B, caught up, its current
   attempt drained - is empty.  (This is what the harness scenario corpus-stale-generation-held-at-server runs.) *)
Theorem c06g_no_recheck_refuted :
  let cfg := {| c_top := true; c_check := false; c_cmd := true; c_aofg := true; c_flagg := true |} in
  let w := trun c_checksumsz cfg true (w0 []) repoint_while_held in
  w_cur toy_st w = 2%nat /\ gens toy_st w = [1; 2]%nat /\ drained_att w 1 = true /\ w_cup toy_st w = true /\
  d_mem toy_st (w_data toy_st w) <> replay toy_st [] toy_app lb /\ d_mem toy_st (w_data toy_st w) = [].
Proof. vm_compute. repeat split. discriminate. Qed.
Print Assumptions c06g_no_recheck_refuted.

(* the code before proposed_fixes/C06-stale-generation-flag.diff ([pinned_cfg]): the first caught-up test after AOF was
   not guarded.  Leader A has an empty log; generation 1 passes followCheckSome and waits for A's reply to AOF 0; FOLLOW
   B: generation 2 has handled one of B's two records; A's reply arrives: `pos >= aofSize` (0 >= 0) holds for generation 1
   and the SERVER-wide flag is raised although the current generation has not been handed B's log.  With the repaired
   source (proved_cfg) the same step ends generation 1 and the flag stays off.  Finding
   C06-stale-generation-raises-caught-up (fixed); regression: harness corpus-stale-generation-held-at-aof-empty-leader *)
Theorem c06g_stale_flag_pinned_refuted :
  let es := [GFollow; GTopCheck 0; GClear 0; GServer 0 []; GCheck 0 [];
             GFollow; GTopCheck 1; GClear 1; GServer 1 lb; GCheck 1 lb; GAof 1 lb; GDeliver 1] in
  let w1 := trun c_checksumsz pinned_cfg true (w0 []) es in
  let w2 := gstep bytes idm bytes_eqb c_checksumsz toy_st [] toy_app pinned_cfg true proved_ops w1 (GAof 0 []) in
  let v1 := trun c_checksumsz proved_cfg true (w0 []) es in
  let v2 := gstep bytes idm bytes_eqb c_checksumsz toy_st [] toy_app proved_cfg true proved_ops v1 (GAof 0 []) in
  gens toy_st w1 = [1; 2]%nat /\ w_cur toy_st w1 = 2%nat /\ w_cup toy_st w1 = false /\
  w_cup toy_st w2 = true /\ drained_att w2 1 = false /\
  d_mem toy_st (w_data toy_st w2) <> replay toy_st [] toy_app lb /\
  v1 = w1 /\ w_cup toy_st v2 = false /\ phase_of toy_st v2 0 = Some PDead.
Proof. vm_compute. repeat split. discriminate. Qed.
Print Assumptions c06g_stale_flag_pinned_refuted.

(* the source as it is, ONE generation: the resume position is verified against the leader's log in followCheckSome
   (on a connection of its own) and sent with AOF afterwards; nothing keeps the leader from replacing its log in
   between (AOFSHRINK closes the registered replication connections only).  checksumsz scaled to 4: the follower holds
   the first two records of l; the leader rewrites its log to l' (same record boundaries, object 1 has its latest value);
   AOF 8 is accepted, the next record is streamed, the follower reports caught up and differs from its leader for ever.
   Open finding C06-shrink-between-check-and-aof (harness: corpus-leader-shrink-between-check-and-aof) *)
Theorem c06g_check_then_shrink_refuted :
  let f := [[1;7;1;5]; [1;7;2;6]]%N in
  let l := f ++ [[1;7;1;9]]%N in
  let l' := [[1;7;1;9]; [1;7;2;6]]%N in
  let r := [1;7;3;3]%N in
  let w := trun 4 proved_cfg true (w0 f)
             [GFollow; GTopCheck 0; GClear 0; GServer 0 l; GCheck 0 l; GAof 0 l'; GFeed 0 r; GDeliver 0; GFlag 0] in
  replay toy_st [] toy_app l = replay toy_st [] toy_app l' /\
  w_cur toy_st w = 1%nat /\ gens toy_st w = [1]%nat /\ drained_att w 0 = true /\ w_cup toy_st w = true /\
  d_mem toy_st (w_data toy_st w) <> replay toy_st [] toy_app (l' ++ [r]) /\
  d_mem toy_st (w_data toy_st w) = replay toy_st [] toy_app (f ++ [r]).
Proof. vm_compute. repeat split. discriminate. Qed.
Print Assumptions c06g_check_then_shrink_refuted.
