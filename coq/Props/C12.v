(* C12 — Filters mean what they say; range and count shortcuts never change results.
   This file holds only the property theorems, each closed by a lemma of Proofs/. *)
From T38 Require Import Base.Bytes Model.Glob Proofs.GlobProofs.
From T38 Require Import Model.Where Proofs.WhereProofs.

(* A name accepted by the matcher lies inside the range Parse hands to the range-limited
   iterations (KEYS, PDEL, HOOKS/CHANS, PDELHOOK/PDELCHAN, SCAN/SEARCH MATCH), in both directions. *)
Theorem c12_limits_sound : forall p d s,
  glob_match p s = WTrue -> prefix_ends_ff p = false ->
  unlimited (parse p d) = true \/ in_limits (parse p d) d s = true.
Proof. exact limits_sound. Qed.
Print Assumptions c12_limits_sound.

(* Hence iterating only that range over the sorted names and filtering with Match selects
   exactly the names that match: the shortcut never changes the result. *)
Theorem c12_range_scan_exact : forall p incl names,
  sorted names -> prefix_ends_ff p = false ->
  range_select p incl names = filter (matches p) names.
Proof. exact range_select_exact. Qed.
Print Assumptions c12_range_scan_exact.

(* Known finding C12-ff (open): the hypothesis prefix_ends_ff p = false cannot be dropped. *)
Theorem c12_limits_ff_refuted :
  exists p s d, glob_match p s = WTrue /\ unlimited (parse p d) = false /\ in_limits (parse p d) d s = false.
Proof. exact limits_ff_refuted. Qed.
Print Assumptions c12_limits_ff_refuted.

(* non-vacuity: a glob with a literal prefix, a matching name, a limited range *)
Example c12_nonvacuous :
  glob_match [104; 101; STAR; 111] [104; 101; 108; 108; 111] = WTrue /\
  prefix_ends_ff [104; 101; STAR; 111] = false /\
  unlimited (parse [104; 101; STAR; 111] false) = false.
Proof. vm_compute. auto. Qed.

(* ---------------- WHERE / WHEREIN ---------------- *)

(* The transcribed Value.Less is the documented order (vcompare: kinds Null < False < Number <
   String < True < JSON, numbers numeric, strings ASCII case-insensitive, the rest byte-wise). *)
Theorem c12_less_is_documented_order : forall a b,
  is_nan a = false -> is_nan b = false -> value_less a b = is_lt (vcompare a b).
Proof. exact value_less_spec. Qed.
Print Assumptions c12_less_is_documented_order.

(* WHERE field min max keeps exactly the values with  min <(=) v <(=) max, each bound exclusive
   iff it was written with "(" — for values and bounds of every kind (NaN apart). *)
Theorem c12_where_spec : forall w v,
  is_op (v_data (w_min w)) = false ->
  is_nan (w_min w) = false -> is_nan (w_max w) = false -> is_nan v = false ->
  match_field w v = in_interval (w_minx w) (w_min w) (w_maxx w) (w_max w) v.
Proof. exact where_range_spec. Qed.
Print Assumptions c12_where_spec.

(* WHERE field OP operand is the plain comparison, for the six operators. *)
Theorem c12_where_ops_spec : forall w v,
  is_nan (w_max w) = false -> is_nan v = false ->
  (v_data (w_min w) = OP_LT -> match_field w v = is_lt (vcompare v (w_max w))) /\
  (v_data (w_min w) = OP_LE -> match_field w v = is_le (vcompare v (w_max w))) /\
  (v_data (w_min w) = OP_GT -> match_field w v = is_gt (vcompare v (w_max w))) /\
  (v_data (w_min w) = OP_GE -> match_field w v = is_ge (vcompare v (w_max w))) /\
  (v_data (w_min w) = OP_EQ -> match_field w v = is_eq (vcompare v (w_max w))) /\
  (v_data (w_min w) = OP_NE -> match_field w v = negb (is_eq (vcompare v (w_max w)))).
Proof. exact where_ops_spec. Qed.
Print Assumptions c12_where_ops_spec.

(* WHEREIN keeps exactly the values equal to a listed one. *)
Theorem c12_wherein_spec : forall vals v,
  wherein_match vals v = existsb (fun val => value_equals val v) vals.
Proof. exact wherein_spec. Qed.
Print Assumptions c12_wherein_spec.

(* The value order is a strict weak order: irreflexive, transitive, asymmetric, "neither is less"
   (Equals) is transitive through any non-NaN value, and any two values are ordered or Equal. *)
Theorem c12_less_strict_order :
  (forall a, value_less a a = false) /\
  (forall a b c, value_less a b = true -> value_less b c = true -> value_less a c = true) /\
  (forall a b, value_less a b = true -> value_less b a = false) /\
  (forall a b c, is_nan b = false ->
     value_equals a b = true -> value_equals b c = true -> value_equals a c = true) /\
  (forall a b, value_less a b = true \/ value_equals a b = true \/ value_less b a = true).
Proof. exact less_strict_order. Qed.
Print Assumptions c12_less_strict_order.

(* The hypothesis is_nan b = false cannot be dropped (float64 NaN is unordered): 1 == NaN == 2. *)
Theorem c12_equals_nan_intransitive :
  exists a b c, value_equals a b = true /\ value_equals b c = true /\ value_equals a c = false.
Proof. exact equals_nan_intransitive. Qed.
Print Assumptions c12_equals_nan_intransitive.

(* The lower-casing of the two WHERE bounds by the command parser does not change the interval
   for String / Number bounds and for bounds whose data is lower-case already.  Partial: it does
   change it for a JSON bound containing an upper-case letter (c12_where_json_bound_case). *)
Theorem c12_where_bound_lowercase_partial : forall minx lo maxx hi v,
  lower_safe lo -> lower_safe hi ->
  in_interval minx (lower_value lo) maxx (lower_value hi) v = in_interval minx lo maxx hi v.
Proof. exact where_make_interval. Qed.
Print Assumptions c12_where_bound_lowercase_partial.

Theorem c12_where_json_bound_case :
  let j := {| v_kind := KJSON; v_data := [123; 34; 65; 34; 58; 49; 125]; v_num := Fin 0 |} in
  let op := {| v_kind := KString; v_data := OP_EQ; v_num := Fin 0 |} in
  match_field (where_make false op false j) j = false /\ value_equals j j = true.
Proof. exact where_make_json_case. Qed.
Print Assumptions c12_where_json_bound_case.

(* An object is kept iff every WHERE and every WHEREIN accepts the value of its field, a missing
   field reading as ZeroValue (Number 0). *)
Theorem c12_field_match_spec : forall ws wis fs,
  field_match ws wis fs =
  forallb (fun nw => match_field (snd nw) (get_field fs (fst nw))) ws &&
  forallb (fun nv => wherein_match (snd nv) (get_field fs (fst nv))) wis.
Proof. exact field_match_spec. Qed.
Print Assumptions c12_field_match_spec.

Theorem c12_missing_field_reads_zero : forall fs name,
  (forall n v, In (n, v) fs -> n <> name) -> get_field fs name = ZeroValue.
Proof. exact get_field_missing. Qed.
Print Assumptions c12_missing_field_reads_zero.

(* COUNT = number of IDS, in both directions, and DESC only reverses. *)
Theorem c12_count_is_ids : forall desc objs ws wis,
  scan_count desc objs ws wis = length (scan_ids desc objs ws wis).
Proof. exact scan_count_ids. Qed.
Print Assumptions c12_count_is_ids.

Theorem c12_desc_only_reverses : forall objs ws wis,
  scan_ids true objs ws wis = rev (scan_ids false objs ws wis).
Proof. exact scan_desc_reverses. Qed.
Print Assumptions c12_desc_only_reverses.

(* non-vacuity: 5 is outside [1,(5 and inside [1,5]; a missing field is outside [0,(0;
   "aB" == "Ab"; false < 0 < "a" < true < {} *)
Example c12_where_nonvacuous :
  let n z := {| v_kind := KNumber; v_data := []; v_num := Fin z |} in
  let s d := {| v_kind := KString; v_data := d; v_num := Fin 0 |} in
  let k kd d := {| v_kind := kd; v_data := d; v_num := Fin 0 |} in
  match_field (where_make false (n 1000%Z) true (n 5000%Z)) (n 5000%Z) = false /\
  match_field (where_make false (n 1000%Z) false (n 5000%Z)) (n 5000%Z) = true /\
  match_field (where_make false (n 0%Z) true (n 0%Z)) (get_field [] [102]) = false /\
  is_op (v_data (n 1000%Z)) = false /\
  value_equals (s [97; 66]) (s [65; 98]) = true /\
  value_less (k KFalse [102]) (n 0%Z) = true /\ value_less (n 0%Z) (s [97]) = true /\
  value_less (s [97]) (k KTrue [116]) = true /\ value_less (k KTrue [116]) (k KJSON [123; 125]) = true.
Proof. vm_compute. repeat split. Qed.
