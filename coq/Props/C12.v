(* C12 — Filters mean what they say; range and count shortcuts never change results.
   This file holds only the property theorems, each closed by a lemma of Proofs/. *)
From T38 Require Import Base.Bytes Model.Glob Proofs.GlobProofs.

(* A name accepted by the matcher lies inside the range Parse hands to the range-limited
   iterations (KEYS, PDEL, HOOKS/CHANS, PDELHOOK/PDELCHAN, SCAN/SEARCH MATCH), in both directions. *)
Theorem c12_limits_sound : forall p d s,
  glob_match p s = WTrue -> prefix_ends_ff p = false ->
  unlimited (parse p d) = true \/ in_limits (parse p d) d s = true.
Proof. exact limits_sound. Qed.
Print Assumptions c12_limits_sound.

(* Hence iterating only that range over the sorted names and filtering with Match selects
   exactly the names that match: the shortcut never changes the result. *)
Theorem c12_range_scan_exact : forall p incl names,
  sorted names -> prefix_ends_ff p = false ->
  range_select p incl names = filter (matches p) names.
Proof. exact range_select_exact. Qed.
Print Assumptions c12_range_scan_exact.

(* Known finding C12-ff (open): the hypothesis prefix_ends_ff p = false cannot be dropped. *)
Theorem c12_limits_ff_refuted :
  exists p s d, glob_match p s = WTrue /\ unlimited (parse p d) = false /\ in_limits (parse p d) d s = false.
Proof. exact limits_ff_refuted. Qed.
Print Assumptions c12_limits_ff_refuted.

(* non-vacuity: a glob with a literal prefix, a matching name, a limited range *)
Example c12_nonvacuous :
  glob_match [104; 101; STAR; 111] [104; 101; 108; 108; 111] = WTrue /\
  prefix_ends_ff [104; 101; STAR; 111] = false /\
  unlimited (parse [104; 101; STAR; 111] false) = false.
Proof. vm_compute. auto. Qed.
