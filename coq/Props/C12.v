(* C12 — Filters mean what they say; range and count shortcuts never change results.
   This file holds only the property theorems, each closed by a lemma of Proofs/. *)
From T38 Require Import Base.Bytes Model.Glob Proofs.GlobProofs.
From T38 Require Import Model.Where Proofs.WhereProofs.

(* A name accepted by the matcher lies inside the range Parse hands to the range-limited
   iterations (KEYS, PDEL, HOOKS/CHANS, PDELHOOK/PDELCHAN, SCAN/SEARCH MATCH), in both directions. *)
Theorem c12_limits_sound : forall p d s,
  glob_match p s = WTrue -> prefix_ends_ff p = false ->
  unlimited (parse p d) = true \/ in_limits (parse p d) d s = true.
Proof. exact limits_sound. Qed.
Print Assumptions c12_limits_sound.

(* Hence iterating only that range over the sorted names and filtering with Match selects
   exactly the names that match: the shortcut never changes the result. *)
Theorem c12_range_scan_exact : forall p incl names,
  sorted names -> prefix_ends_ff p = false ->
  range_select p incl names = filter (matches p) names.
Proof. exact range_select_exact. Qed.
Print Assumptions c12_range_scan_exact.

(* Known finding C12-ff (open): the hypothesis prefix_ends_ff p = false cannot be dropped. *)
Theorem c12_limits_ff_refuted :
  exists p s d, glob_match p s = WTrue /\ unlimited (parse p d) = false /\ in_limits (parse p d) d s = false.
Proof. exact limits_ff_refuted. Qed.
Print Assumptions c12_limits_ff_refuted.

(* non-vacuity: a glob with a literal prefix, a matching name, a limited range *)
Example c12_nonvacuous :
  glob_match [104; 101; STAR; 111] [104; 101; 108; 108; 111] = WTrue /\
  prefix_ends_ff [104; 101; STAR; 111] = false /\
  unlimited (parse [104; 101; STAR; 111] false) = false.
Proof. vm_compute. auto. Qed.

(* ---------------- WHERE / WHEREIN ---------------- *)

(* The transcribed Value.Less is the documented order (vcompare: kinds Null < False < Number <
   String < True < JSON, numbers numeric, strings ASCII case-insensitive, the rest byte-wise). *)
Theorem c12_less_is_documented_order : forall a b,
  is_nan a = false -> is_nan b = false -> value_less a b = is_lt (vcompare a b).
Proof. exact value_less_spec. Qed.
Print Assumptions c12_less_is_documented_order.

(* WHERE field min max keeps exactly the values with  min <(=) v <(=) max, each bound exclusive
   iff it was written with "(" — for values and bounds of every kind (NaN apart). *)
Theorem c12_where_spec : forall w v,
  is_op (v_data (w_min w)) = false ->
  is_nan (w_min w) = false -> is_nan (w_max w) = false -> is_nan v = false ->
  match_field w v = in_interval (w_minx w) (w_min w) (w_maxx w) (w_max w) v.
Proof. exact where_range_spec. Qed.
Print Assumptions c12_where_spec.

(* WHERE field OP operand is the plain comparison, for the six operators. *)
Theorem c12_where_ops_spec : forall w v,
  is_nan (w_max w) = false -> is_nan v = false ->
  (v_data (w_min w) = OP_LT -> match_field w v = is_lt (vcompare v (w_max w))) /\
  (v_data (w_min w) = OP_LE -> match_field w v = is_le (vcompare v (w_max w))) /\
  (v_data (w_min w) = OP_GT -> match_field w v = is_gt (vcompare v (w_max w))) /\
  (v_data (w_min w) = OP_GE -> match_field w v = is_ge (vcompare v (w_max w))) /\
  (v_data (w_min w) = OP_EQ -> match_field w v = is_eq (vcompare v (w_max w))) /\
  (v_data (w_min w) = OP_NE -> match_field w v = negb (is_eq (vcompare v (w_max w)))).
Proof. exact where_ops_spec. Qed.
Print Assumptions c12_where_ops_spec.

(* WHEREIN keeps exactly the values equal to a listed one. *)
Theorem c12_wherein_spec : forall vals v,
  wherein_match vals v = existsb (fun val => value_equals val v) vals.
Proof. exact wherein_spec. Qed.
Print Assumptions c12_wherein_spec.

(* The value order is a strict weak order: irreflexive, transitive, asymmetric, "neither is less"
   (Equals) is transitive through any non-NaN value, and any two values are ordered or Equal. *)
Theorem c12_less_strict_order :
  (forall a, value_less a a = false) /\
  (forall a b c, value_less a b = true -> value_less b c = true -> value_less a c = true) /\
  (forall a b, value_less a b = true -> value_less b a = false) /\
  (forall a b c, is_nan b = false ->
     value_equals a b = true -> value_equals b c = true -> value_equals a c = true) /\
  (forall a b, value_less a b = true \/ value_equals a b = true \/ value_less b a = true).
Proof. exact less_strict_order. Qed.
Print Assumptions c12_less_strict_order.

(* The hypothesis is_nan b = false cannot be dropped (float64 NaN is unordered): 1 == NaN == 2. *)
Theorem c12_equals_nan_intransitive :
  exists a b c, value_equals a b = true /\ value_equals b c = true /\ value_equals a c = false.
Proof. exact equals_nan_intransitive. Qed.
Print Assumptions c12_equals_nan_intransitive.

(* The lower-casing of the two WHERE bounds by the command parser does not change the interval
   for String / Number bounds and for bounds whose data is lower-case already.  Partial: it does
   change it for a JSON bound containing an upper-case letter (c12_where_json_bound_case). *)
Theorem c12_where_bound_lowercase_partial : forall minx lo maxx hi v,
  lower_safe lo -> lower_safe hi ->
  in_interval minx (lower_value lo) maxx (lower_value hi) v = in_interval minx lo maxx hi v.
Proof. exact where_make_interval. Qed.
Print Assumptions c12_where_bound_lowercase_partial.

Theorem c12_where_json_bound_case :
  let j := {| v_kind := KJSON; v_data := [123; 34; 65; 34; 58; 49; 125]; v_num := Fin 0 |} in
  let op := {| v_kind := KString; v_data := OP_EQ; v_num := Fin 0 |} in
  match_field (where_make false op false j) j = false /\ value_equals j j = true.
Proof. exact where_make_json_case. Qed.
Print Assumptions c12_where_json_bound_case.

(* An object is kept iff every WHERE and every WHEREIN accepts the value of its field, a missing
   field reading as ZeroValue (Number 0). *)
Theorem c12_field_match_spec : forall ws wis fs,
  field_match ws wis fs =
  forallb (fun nw => match_field (snd nw) (get_field fs (fst nw))) ws &&
  forallb (fun nv => wherein_match (snd nv) (get_field fs (fst nv))) wis.
Proof. exact field_match_spec. Qed.
Print Assumptions c12_field_match_spec.

Theorem c12_missing_field_reads_zero : forall fs name,
  (forall n v, In (n, v) fs -> n <> name) -> get_field fs name = ZeroValue.
Proof. exact get_field_missing. Qed.
Print Assumptions c12_missing_field_reads_zero.

(* COUNT = number of IDS, in both directions, and DESC only reverses. *)
Theorem c12_count_is_ids : forall desc objs ws wis,
  scan_count desc objs ws wis = length (scan_ids desc objs ws wis).
Proof. exact scan_count_ids. Qed.
Print Assumptions c12_count_is_ids.

Theorem c12_desc_only_reverses : forall objs ws wis,
  scan_ids true objs ws wis = rev (scan_ids false objs ws wis).
Proof. exact scan_desc_reverses. Qed.
Print Assumptions c12_desc_only_reverses.

(* non-vacuity: 5 is outside [1,(5 and inside [1,5]; a missing field is outside [0,(0;
   "aB" == "Ab"; false < 0 < "a" < true < {} *)
Example c12_where_nonvacuous :
  let n z := {| v_kind := KNumber; v_data := []; v_num := Fin z |} in
  let s d := {| v_kind := KString; v_data := d; v_num := Fin 0 |} in
  let k kd d := {| v_kind := kd; v_data := d; v_num := Fin 0 |} in
  match_field (where_make false (n 1000%Z) true (n 5000%Z)) (n 5000%Z) = false /\
  match_field (where_make false (n 1000%Z) false (n 5000%Z)) (n 5000%Z) = true /\
  match_field (where_make false (n 0%Z) true (n 0%Z)) (get_field [] [102]) = false /\
  is_op (v_data (n 1000%Z)) = false /\
  value_equals (s [97; 66]) (s [65; 98]) = true /\
  value_less (k KFalse [102]) (n 0%Z) = true /\ value_less (n 0%Z) (s [97]) = true /\
  value_less (s [97]) (k KTrue [116]) = true /\ value_less (k KTrue [116]) (k KJSON [123; 125]) = true.
Proof. vm_compute. repeat split. Qed.

(* ====================================================================================
   WHERE "<expr>": the expression form of the field filter (Model/WhereExpr.v transcribes
   github.com/tidwall/expr's Eval with tile38's extender, Model/WhereExprTree.v is the tree a
   filter is meant to be, Model/WhereExprScan.v the expression arm of fieldMatch).
   ==================================================================================== *)
From T38 Require Import Model.Float32 Model.WhereExpr Model.WhereExprF64 Model.WhereExprScan Model.WhereExprTree.
From T38 Require Import Proofs.WhereExprSafe Proofs.WhereExprSem Proofs.WhereExprProps.

(* The evaluator never panics and always terminates: on every byte string, for every object and
   every behaviour of the opaque libraries, expr.Eval (and matchExpr on top of it) returns a value
   or an error; none of the index / slice expressions of the Go code can go out of range and none
   of the fuelled loops of the model runs dry.  detectExprToken never panics either. *)
Theorem c12_expr_never_panics_terminates :
  forall (F : Type) (O : oracle F) (obj : eobj F) (e : bytes),
    (eval F O obj e <> Panic /\ eval F O obj e <> NoFuel) /\
    (match_expr F O obj e <> Panic /\ match_expr F O obj e <> NoFuel).
Proof. exact (fun F O obj e => conj (eval_safe F O obj e) (match_expr_safe F O obj e)). Qed.
Print Assumptions c12_expr_never_panics_terminates.

Theorem c12_expr_detect_token_total : forall vs, exists b, detect_expr_token vs = Ok b.
Proof. exact detect_expr_token_safe. Qed.
Print Assumptions c12_expr_detect_token_total.

(* readGroup (the bracket / quote skipper every level relies on) returns a prefix of its input of
   at least two bytes, or an error. *)
Theorem c12_expr_group_is_prefix : forall data g,
  read_group data = Ok g -> (2 <= length g)%nat /\ exists r, data = g ++ r.
Proof. exact read_group_prefix. Qed.
Print Assumptions c12_expr_group_is_prefix.

(* Evaluating the printed text of a well-formed filter tree is the denotation of the tree: the
   string splitter finds exactly the structure the printer wrote (precedence levels, parentheses,
   quoted literals, the operators == != < <= > >= && || !), for every tree, object and oracle.
   This is the round trip of the (tree-less) parser: print, then evaluate = denote. *)
Theorem c12_expr_print_eval :
  forall (F : Type) (O : oracle F) (obj : eobj F) (e : bexpr),
    wf e = true -> eval F O obj (print e) = den F O obj e.
Proof. exact (fun F O obj => eval_print O obj). Qed.
Print Assumptions c12_expr_print_eval.

Theorem c12_expr_print_match :
  forall (F : Type) (O : oracle F) (obj : eobj F) (e : bexpr),
    wf e = true -> match_expr F O obj (print e) = den_match F O obj e.
Proof. exact (fun F O obj => match_print O obj). Qed.
Print Assumptions c12_expr_print_match.

(* && || ! are the Boolean connectives of the truth values of their operands whenever both
   operands evaluate to something that has one; evaluating both operands (there is no short
   circuit in the evaluator) gives what a short-circuiting reading gives; double negation,
   De Morgan and commutativity hold. *)
Theorem c12_expr_bool_semantics :
  forall (F : Type) (O : oracle F) (obj : eobj F) a b ba bb,
    holds O obj a ba -> holds O obj b bb ->
    den_match F O obj (BAnd a b) = Ok (sc_and ba bb) /\
    den_match F O obj (BOr a b) = Ok (sc_or ba bb) /\
    den_match F O obj (BNot a) = Ok (negb ba) /\
    den_match F O obj (BNot (BNot a)) = Ok ba /\
    den_match F O obj (BNot (BAnd a b)) = den_match F O obj (BOr (BNot a) (BNot b)) /\
    den_match F O obj (BNot (BOr a b)) = den_match F O obj (BAnd (BNot a) (BNot b)) /\
    den_match F O obj (BAnd a b) = den_match F O obj (BAnd b a) /\
    den_match F O obj (BOr a b) = den_match F O obj (BOr b a).
Proof. exact (fun F O obj => bool_semantics O obj). Qed.
Print Assumptions c12_expr_bool_semantics.

(* ... but an operand that fails rejects the object whatever the other operand says: with a
   short circuit, true || <error> would keep the object.  Witness (float64 instance): a string
   object with f = 5 and the filter (f > 1) || (type == "Point"). *)
Theorem c12_expr_or_short_circuit_refuted :
  exists (o : sobj) (e1 e2 : bexpr),
    wf (BOr e1 e2) = true /\
    den_match f64 f64_plain (f64_obj o) e1 = Ok true /\
    (exists x, den f64 f64_plain (f64_obj o) e2 = Err x) /\
    match_expr f64 f64_plain (f64_obj o) (print (BOr e1 e2)) = Ok false.
Proof.
  exact (ex_intro _ witness_str_obj (ex_intro _ _ (ex_intro _ _
    (conj (proj1 or_error_witness) (conj (proj1 (proj2 or_error_witness))
      (conj (ex_intro _ EUndef (proj1 (proj2 (proj2 or_error_witness)))) (proj2 (proj2 (proj2 or_error_witness))))))))).
Qed.
Print Assumptions c12_expr_or_short_circuit_refuted.

(* A scan filtered by WHERE clauses (expression and field clauses mixed) keeps exactly the objects
   every clause accepts, in iteration order; DESC only reverses; with one expression clause that
   is the printed text of a tree it keeps exactly the objects on which the tree holds. *)
Theorem c12_expr_scan_exact :
  forall (F : Type) (O : oracle F) mt desc objs cs (k : wclause -> sobj -> bool),
    (forall c o, In c cs -> In o objs -> clause_match F O mt c o = Ok (k c o)) ->
    scan_expr_ids F O mt desc objs cs =
      Ok (map so_id (filter (fun o => forallb (fun c => k c o) cs) (if desc then rev objs else objs))).
Proof. exact (fun F O mt => scan_expr_exact O mt). Qed.
Print Assumptions c12_expr_scan_exact.

Theorem c12_expr_scan_desc_reverses :
  forall (F : Type) (O : oracle F) mt objs cs ids,
    scan_expr_ids F O mt false objs cs = Ok ids ->
    (forall c o, In c cs -> In o objs -> exists b, clause_match F O mt c o = Ok b) ->
    scan_expr_ids F O mt true objs cs = Ok (rev ids).
Proof. exact (fun F O mt => scan_expr_desc O mt). Qed.
Print Assumptions c12_expr_scan_desc_reverses.

Theorem c12_expr_scan_keeps_what_the_tree_says :
  forall (F : Type) (O : oracle F) mt desc objs e (keep : sobj -> bool),
    wf e = true ->
    (forall o, In o objs -> den_match F O (to_eobj F O (mt (so_id o)) o) e = Ok (keep o)) ->
    scan_expr_ids F O mt desc objs [WExpr (print e)] =
      Ok (map so_id (filter keep (if desc then rev objs else objs))).
Proof. exact (fun F O mt => scan_print_exact O mt). Qed.
Print Assumptions c12_expr_scan_keeps_what_the_tree_says.

(* WHERE f a b and WHERE "(f >= a) && (f <= b)" (with > / < for a bound written "(a") agree on
   every object whose field f is missing or a finite number, for integer bounds (negative ones
   written (-a) in the expression), under every oracle that compares stored numbers and integer
   literals as the numbers they are.  Partial: not for the other kinds of field values (next
   theorem); fractional bounds are outside the tree type. *)
Theorem c12_expr_range_agrees_partial :
  forall (F : Type) (O : oracle F) (o : sobj) mt f minx a maxx b,
    num_agree O -> wf_name f = true -> not_pseudo f ->
    (-1000000000000 < a < 1000000000000)%Z -> (-1000000000000 < b < 1000000000000)%Z ->
    numeric_field (so_fields o) f ->
    den_match F O (to_eobj F O mt o) (range_tree f minx a maxx b) =
      Ok (match_field (where_make minx (num_value (1000 * a)) maxx (num_value (1000 * b)))
            (get_field (so_fields o) f)).
Proof. exact (fun F O => range_agrees O). Qed.
Print Assumptions c12_expr_range_agrees_partial.

(* Outside finite numbers the two forms differ: f = +Inf is inside WHERE f 5 +inf but fails
   WHERE "f >= 5" (the evaluator is handed the JSON string "+Inf"); t = true is outside
   WHERE t 0 10 but passes (t >= 0) && (t <= 10) (true counts as 1). *)
Theorem c12_expr_range_vs_expr_refuted :
  exists (o : sobj),
    match_field (where_make false (num_value 5000) false v_inf) (get_field (so_fields o) s_f) = true /\
    den_match f64 f64_plain (f64_obj o) (BCmp CGe (AField s_f) (ANum 5)) = Ok false /\
    match_expr f64 f64_plain (f64_obj o) (print (BCmp CGe (AField s_f) (ANum 5))) = Ok false /\
    match_field (where_make false (num_value 0) false (num_value 10000)) (get_field (so_fields o) s_t) = false /\
    den_match f64 f64_plain (f64_obj o) (range_tree s_t false 0 false 10) = Ok true.
Proof. exact (ex_intro _ witness_obj range_vs_expr_witness). Qed.
Print Assumptions c12_expr_range_vs_expr_refuted.

(* Two spellings are not read the way they are meant (open findings C12-expr-ident-e-sign and
   C12-expr-sign-after-factor): an identifier ending in e / E directly followed by + or - is taken
   for scientific notation, and a sign directly after * / % is refused; both are syntax errors,
   the error is swallowed by matchExpr and no object is kept.   price-10 > 0   vs   price - 10 > 0,
   price*-1 < 3   vs   price * (-1) < 3   on an object with price = 25. *)
Theorem c12_expr_spelling_refuted :
  exists (o : sobj),
    eval f64 f64_plain (f64_obj o) txt_price_minus = Err ESyntax /\
    match_expr f64 f64_plain (f64_obj o) txt_price_minus = Ok false /\
    match_expr f64 f64_plain (f64_obj o) txt_price_minus_sp = Ok true /\
    eval f64 f64_plain (f64_obj o) txt_mul_neg = Err ESyntax /\
    match_expr f64 f64_plain (f64_obj o) txt_mul_neg = Ok false /\
    match_expr f64 f64_plain (f64_obj o) txt_mul_neg_par = Ok true.
Proof. exact (ex_intro _ witness_obj spelling_witness). Qed.
Print Assumptions c12_expr_spelling_refuted.

(* non-vacuity: (price < 30) && (!(t == false)) is well formed, prints as expected and holds on
   the witness object; num_agree is satisfiable (exact arithmetic on thousandths). *)
Example c12_expr_nonvacuous :
  (wf sample_tree = true /\
   print sample_tree = [40; 112; 114; 105; 99; 101; 32; 60; 32; 51; 48; 41; 32; 38; 38; 32; 40; 33; 40; 116; 32; 61; 61; 32;
                        102; 97; 108; 115; 101; 41; 41]%N /\
   match_expr f64 f64_plain (f64_obj witness_obj) (print sample_tree) = Ok true /\
   den_match f64 f64_plain (f64_obj witness_obj) sample_tree = Ok true) /\
  num_agree toy_oracle.
Proof. exact (conj sample_tree_ok toy_num_agree). Qed.
