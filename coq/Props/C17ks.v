(* C17 on the keyspace commands (SET FSET DEL PDEL DROP RENAME RENAMENX FLUSHDB EXPIRE PERSIST TTL GET
   FGET EXISTS FEXISTS TYPE KEYS JGET JSET JDEL and every error reply): the reply in BOTH output
   modes is inside the model (Model/KsReply.v) — one abstract result [kres] per handler outcome,
   rendered as the RESP value (resp_reply) and as the JSON document (json_doc = an instantiation of
   the reply template regenerated from the handler's source; json_tree = the same document as a tree).
   This file holds only the property theorems, each closed by a lemma of Proofs/KsReplyProofs.v. *)
From Coq Require Import String.
From T38 Require Import Base.Bytes Base.Utf8 Base.SMap Model.Field Model.Object Model.Spec Model.Keyspace.
From T38 Require Import Model.Json Model.Templates Model.KsReply.
From T38 Require Import Proofs.JsonTmplProofs Proofs.KsReplyProofs.
From T38 Require Model.RespOut.
From T38 Require Gen.Templates.

(* Well-formed results (kres_wf) = what the libraries behind the opaque texts are trusted to print:
   geojson AppendJSON yields a JSON value, strconv.FormatFloat(f,'f',-1,64) a decimal text or NaN /
   +Inf / -Inf, a geohash is base-32 text, a Number / JSON field value passed gjson.Valid, true /
   false / null fields have one spelling, the command name of an arity error is that of a dispatched
   command.  handler_ok = the success document is written by a function that has one. *)

(* JSON mode, the bytes: the document written for a result — the regenerated template of its handler,
   instantiated — is the compact printing of the document tree (so what is proved about the tree is
   about the bytes on the wire). *)
Theorem c17_ks_json_doc_is_tree : forall h k d, kres_wf k -> handler_ok h k ->
  json_doc h k d = Some (jprint (json_tree k d)).
Proof. exact json_doc_tree. Qed.
Print Assumptions c17_ks_json_doc_is_tree.

(* JSON mode, validity: for every result of every keyspace command the reply is defined, is an
   instance of a reply template regenerated from internal/server (c17_all_templates applies), is one
   valid JSON document, and starts with {"ok":true exactly when the result is a success and with
   {"ok":false otherwise.  d is the printed duration (time.Duration.String: no quote, backslash or
   control byte). *)
Theorem c17_ks_json_valid : forall h k d, kres_wf k -> handler_ok h k -> string_safe d = true ->
  exists v, json_doc h k d = Some v /\ v = jprint (json_tree k d) /\
            doc_instance v /\ valid_json v = true /\ hasPrefix (ok_prefix (is_ok k)) v.
Proof. exact json_reply_valid. Qed.
Print Assumptions c17_ks_json_valid.

(* ... "ok" is a boolean member, and "err" (a string) is present exactly when it is false *)
Theorem c17_ks_json_ok_err : forall k d,
  exists m, json_tree k d = VObj m /\
    vget k_ok m = Some (VTok (if is_ok k then t_true else t_false)) /\
    (if is_ok k then vget k_err m = None else exists msg, vget k_err m = Some (VStr msg)).
Proof. exact json_tree_ok_err. Qed.
Print Assumptions c17_ks_json_ok_err.

(* any document tree whose leaves are JSON values / string-safe raw strings prints to a JSON value
   in every position (independent of the templates: jsonString, json.Marshal and raw quoting for
   strings, commas and colons by the printer) *)
Theorem c17_ks_tree_prints_value : forall j, jv_wf j -> json_value (jprint j).
Proof. exact jprint_value. Qed.
Print Assumptions c17_ks_tree_prints_value.

(* appendJSONFloat: null for NaN / +Inf / -Inf, else the FormatFloat text, which is a JSON number *)
Theorem c17_ks_float_is_value : forall t, float_text t = true -> json_value (jf t).
Proof. exact jf_value. Qed.
Print Assumptions c17_ks_float_is_value.

(* RESP mode: the value handed to MarshalRESP is well-formed, hence (c17_resp_valid) a strict RESP2
   client re-reads exactly it, with nothing left over *)
Theorem c17_ks_resp_valid : forall k, kres_wf k ->
  exists v, rval_of (resp_reply k) = Some v /\ RespOut.resp_parse (RespOut.resp_print v) = Some (v, []).
Proof. exact resp_reply_roundtrip. Qed.
Print Assumptions c17_ks_resp_valid.

(* Both modes convey the same result.  A client that sent the command c (asked as a: the command
   and its reply-shaping options) reads the conveyed result conv_of a k off either reply:
   error class and text (RESP's line is writeErr of JSON's text), negative answer, object / point
   / bounds / hash, field names and data, FGET value, EXISTS boolean, TTL, TYPE, key list, JGET value.
   [fits c a k]: k is a result that command can answer with.  By design the projection forgets: the
   count of DEL / PDEL / DROP / RENAMENX / FSET (RESP only), which of key and id is missing (JSON
   only), NaN vs +Inf vs -Inf coordinates (RESP only; JSON prints null), and for PERSIST everything
   but "no error" (see c17_ks_persist_incomparable). *)
Theorem c17_ks_modes_agree : forall c a k d, kres_wf k -> fits c a k ->
  conveys_json c a (json_tree k d) = Some (conv_of a k) /\
  conveys_resp a (resp_reply k) = Some (conv_of a k).
Proof. exact modes_convey_same. Qed.
Print Assumptions c17_ks_modes_agree.

(* The abstract result of a step is the one C01's handler model answers with: same new state, same
   log record, and the RESP arm is exec's reply — for every oracle, state and command line.  Hence
   the state effect and the log do not depend on the output mode, and everything C01 proves about
   replies (refinement of the plain-map specification) holds for the RESP rendering. *)
Theorem c17_ks_resp_is_c01_reply : forall O e s args,
  match exec_k O e s args with
  | KDone s' c a h k log => exec O true e s args = Done s' (resp_reply k) log
  | KPanic => exec O true e s args = Panic
  | KUnmodelled => True
  end.
Proof. exact exec_k_exec. Qed.
Print Assumptions c17_ks_resp_is_c01_reply.

(* every result a handler computes is one its command can answer with, and is written by a
   function that has a success template; errs_distinct: the error text (argument parsing, sjson,
   geojson) is not literally one of JSON mode's negative texts for that command *)
Theorem c17_ks_step_fits : forall O c e s q hk a,
  kres_of O c e s q = Some hk -> ask_of q = Some a -> errs_distinct a (snd hk) ->
  fits c a (snd hk) /\ handler_ok (fst hk) (snd hk).
Proof. exact kres_of_fits. Qed.
Print Assumptions c17_ks_step_fits.

(* One step, everything together, for all oracles / environments / states / command lines. *)
Theorem c17_ks_step : forall O e s args s' c a h k log d,
  exec_k O e s args = KDone s' c (Some a) h k log ->
  kres_wf k -> errs_distinct a k -> string_safe d = true ->
  exec O true e s args = Done s' (resp_reply k) log /\
  (exists v, json_doc h k d = Some v /\ v = jprint (json_tree k d) /\ doc_instance v /\
             valid_json v = true /\ hasPrefix (ok_prefix (is_ok k)) v) /\
  (exists v, rval_of (resp_reply k) = Some v /\ RespOut.resp_wf v = true) /\
  conveys_json c a (json_tree k d) = Some (conv_of a k) /\
  conveys_resp a (resp_reply k) = Some (conv_of a k).
Proof. exact step_both_modes. Qed.
Print Assumptions c17_ks_step.

(* ... and when the gate (not the leader / read only / catching up) or the argument parser refuses
   the command: an error in both modes, nothing changed, nothing logged *)
Theorem c17_ks_step_early_error : forall O e s args s' c h k log a d,
  exec_k O e s args = KDone s' c None h k log ->
  kres_wf k -> errs_distinct a k -> string_safe d = true ->
  s' = s /\ log = [] /\ is_ok k = false /\
  exec O true e s args = Done s (resp_reply k) [] /\
  (exists v, json_doc h k d = Some v /\ v = jprint (json_tree k d) /\ doc_instance v /\ valid_json v = true) /\
  conveys_json c a (json_tree k d) = Some (conv_of a k) /\
  conveys_resp a (resp_reply k) = Some (conv_of a k).
Proof. exact step_early_error. Qed.
Print Assumptions c17_ks_step_early_error.

(* Where the modes differ by design (stated, not hidden in the projection). *)
Theorem c17_ks_persist_incomparable : forall d,
  (exists k1 k2, fits c_persist_l APersist k1 /\ fits c_persist_l APersist k2 /\
                 resp_reply k1 = resp_reply k2 /\ json_tree k1 d <> json_tree k2 d) /\
  (exists k1 k2, fits c_persist_l APersist k1 /\ fits c_persist_l APersist k2 /\
                 json_tree k1 d = json_tree k2 d /\ resp_reply k1 <> resp_reply k2).
Proof. exact persist_incomparable. Qed.
Print Assumptions c17_ks_persist_incomparable.

Theorem c17_ks_count_only_in_resp : forall c d,
  exists k1 k2, fits c ACount k1 /\ fits c ACount k2 /\
                json_tree k1 d = json_tree k2 d /\ resp_reply k1 <> resp_reply k2.
Proof. exact count_only_in_resp. Qed.
Print Assumptions c17_ks_count_only_in_resp.

Theorem c17_ks_missing_which_only_in_json : forall c kind wf d,
  exists k1 k2, fits c (AObjGet kind wf) k1 /\ fits c (AObjGet kind wf) k2 /\
                resp_reply k1 = resp_reply k2 /\ json_tree k1 d <> json_tree k2 d.
Proof. exact missing_which_only_in_json. Qed.
Print Assumptions c17_ks_missing_which_only_in_json.

(* the side condition errs_distinct cannot be dropped *)
Theorem c17_ks_negative_text_error_refuted : forall d,
  exists k, kres_wf k /\
    conveys_json c_jdel_l AJdel (json_tree k d) <> conveys_resp AJdel (resp_reply k).
Proof. exact negative_text_error_refuted. Qed.
Print Assumptions c17_ks_negative_text_error_refuted.

(* ---------- non-vacuity: a concrete oracle, state and programme ---------- *)

Definition pt : geo := mkGeo true (bs "{""type"":""Point"",""coordinates"":[1,2]}").
Definition O0 : oracle :=
  mkOracle (mkFOracle (fun d => mkValue KNumber d) (fun s => s) (fun _ _ => None))
           (fun _ => true) (fun _ => 0%Z) (fun _ => Some 5%Z) (fun _ => Some 0%N) (fun s => s)
           (fun _ _ => GOk pt) (fun _ => [bs "2"; bs "1"]) (fun _ => [bs "2"; bs "1"; bs "2"; bs "1"])
           (fun _ _ => bs "s00twy0") (fun _ j _ _ => OOk j) (fun j _ => OOk j) (fun _ _ _ => None).
Definition e0 : env := mkEnv 1000%Z false true false [].
Definition st1 : state :=
  match exec O0 true e0 [] (map bs ["SET"; "fleet"; "t""1"; "FIELD"; "speed"; "5"; "POINT"; "2"; "1"]%string) with
  | Done s _ _ => s
  | Panic => []
  end.

Example c17_ks_nonvacuous :
  exists s' h k log,
    exec_k O0 e0 st1 (map bs ["GET"; "fleet"; "t""1"; "WITHFIELDS"; "POINT"]%string) =
      KDone s' c_get (Some (AObjGet RK_POINT true)) h k log /\
    kres_wf k /\ errs_distinct (AObjGet RK_POINT true) k /\
    conv_of (AObjGet RK_POINT true) k = CObj (CGCoords [bs "2"; bs "1"]) [(bs "speed", bs "5")] /\
    json_doc h k (bs "12.5µs") =
      Some (bs "{""ok"":true,""point"":{""lat"":2,""lon"":1},""fields"":{""speed"":5},""elapsed"":""12.5µs""}") /\
    (* a missing id: nil in RESP, an error document in JSON, both read as a negative answer *)
    (exists k2, exec_k O0 e0 st1 (map bs ["GET"; "fleet"; "nope"]%string) =
                  KDone st1 c_get (Some (AObjGet RK_OBJECT false)) h_bor k2 [] /\
                resp_reply k2 = RNil /\ is_ok k2 = false /\ conv_of (AObjGet RK_OBJECT false) k2 = CNeg).
Proof.
  eexists _, _, _, _. split; [vm_compute; reflexivity|].
  split.
  { cbn [kres_wf geoview_wf]. split; [split; [left; reflexivity | reflexivity]|].
    constructor; [|constructor]. right. apply (int_text_value (bs "5")). reflexivity. }
  split; [exact I|]. split; [vm_compute; reflexivity|]. split; [vm_compute; reflexivity|].
  eexists. split; [vm_compute; reflexivity|]. repeat split.
Qed.
