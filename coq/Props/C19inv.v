(* C19 (continuation) — finding C19-inverted-bounds.  Full statement wanted by the property: the box
   BOUNDS reports contains every retrievable geometry.  It is FALSE for the code as written when SET
   stored a BOUNDS object whose first corner is above its second (cmdSET does not order or refuse the
   corners): witness SET k a BOUNDS 10 10 0 0 ; SET k b POINT 5 5 ; BOUNDS k -> [[5 5] [5 5]], which the
   model admits (bounds_ok) and which does not contain a's corner (10, 10).  c19_bounds_partial (Props/C19.v)
   still holds: it speaks of the stored Min / Max coordinates, whatever their order. *)
From T38 Require Import Base.Bytes Model.Float32 Model.Collection Proofs.CollectionProofs Proofs.CollBoundsInverted.
Import ListNotations.

Theorem c19_bounds_inverted_rect_refuted :
  exists c b o, Wf c /\ In o (spatial_list c) /\ bounds_ok c b = true /\ bounds_exact c b = true /\
                le64 (r64_minx (o_rect o)) (r64_maxx b) = false.
Proof. exact bounds_inverted_refuted. Qed.
Print Assumptions c19_bounds_inverted_rect_refuted.
