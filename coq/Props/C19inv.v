(* C19 (continuation) — finding C19-inverted-bounds, repaired in /repo by 85e217d
   ("fix: SET key id BOUNDS must order the two corners it is given").

   The property wants the box BOUNDS reports to contain every retrievable geometry.  For the PINNED
   cmdSET (Model/SetBounds.v set_bounds_rect_pinned: the corners as given) it is FALSE: witness
   SET k a BOUNDS 10 10 0 0 ; SET k b POINT 5 5 ; BOUNDS k -> [[5 5] [5 5]], which the collection model
   admits (bounds_ok, even bounds_exact) and which does not contain a's corner (10, 10) — kept below as
   c19_bounds_inverted_rect_pinned_refuted.  The repaired cmdSET (set_bounds_rect) orders the corners, so
   every BOUNDS object enters the collection with Min <= Max (c19_set_bounds_ordered), and with ordered
   rectangles in the index an exact box contains every indexed object (c19_ordered_box_contains).
   Only property theorems, each closed by a lemma of Proofs/CollBoundsInverted.v. *)
From Flocq Require Import Core BinarySingleNaN.
From T38 Require Import Base.Bytes Model.Float32 Model.Collection Proofs.CollectionProofs Model.SetBounds
  Proofs.CollBoundsInverted.
Import ListNotations.

(* the pinned construction: an unordered "rectangle" reaches the index and the reported box misses it;
   the repaired construction orders the same four numbers *)
Theorem c19_bounds_inverted_rect_pinned_refuted :
  exists v0 v1 v2 v3 c b o,
    o_rect o = set_bounds_rect_pinned v0 v1 v2 v3 /\ rect_ordered (o_rect o) = false /\
    Wf c /\ In o (spatial_list c) /\ bounds_ok c b = true /\ bounds_exact c b = true /\
    le64 (r64_minx (o_rect o)) (r64_maxx b) = false /\
    rect_ordered (set_bounds_rect v0 v1 v2 v3) = true.
Proof. exact bounds_inverted_pinned_refuted. Qed.
Print Assumptions c19_bounds_inverted_rect_pinned_refuted.

(* the repaired cmdSET: whatever order the two corners come in (finite numbers), Min <= Max *)
Theorem c19_set_bounds_ordered : forall v0 v1 v2 v3 : f64,
  is_finite v0 = true -> is_finite v1 = true -> is_finite v2 = true -> is_finite v3 = true ->
  rect_ordered (set_bounds_rect v0 v1 v2 v3) = true.
Proof. exact set_bounds_ordered. Qed.
Print Assumptions c19_set_bounds_ordered.

(* ... and corners given in order are stored unchanged *)
Theorem c19_set_bounds_keeps_ordered : forall v0 v1 v2 v3 : f64,
  gt64 v0 v2 = false -> gt64 v1 v3 = false ->
  set_bounds_rect v0 v1 v2 v3 = set_bounds_rect_pinned v0 v1 v2 v3.
Proof. exact set_bounds_keeps_ordered. Qed.
Print Assumptions c19_set_bounds_keeps_ordered.

(* with ordered rectangles in the spatial index a box that is exact in the model's sense contains
   every indexed object (both of its corners): the pinned witness cannot occur *)
Theorem c19_ordered_box_contains : forall c b, finite_rect b ->
  (forall o, In o (spatial_list c) -> finite_rect (o_rect o) /\ rect_ordered (o_rect o) = true) ->
  bounds_exact c b = true ->
  forall o, In o (spatial_list c) ->
    le64 (r64_minx (o_rect o)) (r64_maxx b) = true /\ le64 (r64_miny (o_rect o)) (r64_maxy b) = true /\
    le64 (r64_minx b) (r64_maxx (o_rect o)) = true /\ le64 (r64_miny b) (r64_maxy (o_rect o)) = true.
Proof. exact ordered_box_contains. Qed.
Print Assumptions c19_ordered_box_contains.
