(* C19 (continuation) — the key space against the retrievable objects, at the server level.
   c19_server_totals / c19_num_collections (Props/C19.v) take "no registered collection is empty" as a
   hypothesis; here it is discharged for every history of keyspace commands by C01's invariant
   (Model/Keyspace.v = the handlers of crud.go / json.go / keys.go, Proofs/KsProgram.v: Reach,
   c01_nonempty_cols), and the C19 reading is stated: KEYS * = the keys from which GET retrieves at
   least one object, s.cols.Len() (SERVER num_collections) = their number, TYPE = none for every other
   key — in every reachable state, i.e. after every program of SET FSET DEL PDEL DROP RENAME RENAMENX
   FLUSHDB EXPIRE PERSIST JSET JDEL and reads with ANY argument lists: refused (NX / XX, missing key or
   id, sjson refusing the path), malformed and negative commands are steps like any other.
   Only property theorems, each closed by a lemma of Proofs/KsLive.v; [O] (opaque library behaviour,
   sjson included) is universally quantified. *)
From T38 Require Import Base.Bytes Base.SMap Model.Field Model.Object Model.Glob Model.Spec Model.Keyspace
  Proofs.KsInv Proofs.KsProgram Proofs.KsLive.
Import ListNotations.

(* a key is registered iff something is retrievable from it (find = the lookup of GET) *)
Theorem c19ks_registered_iff_retrievable : forall O s, Reach O s ->
  forall k, In k (keys s) <-> exists id o, find s k id = Some o.
Proof. exact registered_iff_retrievable. Qed.
Print Assumptions c19ks_registered_iff_retrievable.

(* no registered collection is empty, and the number of registered collections (num_collections) is
   the number of keys holding an object *)
Theorem c19ks_num_collections : forall O s, Reach O s ->
  live_keys s = keys s /\ length s = length (live_keys s).
Proof. exact live_keys_all. Qed.
Print Assumptions c19ks_num_collections.

(* KEYS * answers exactly those keys, in order *)
Theorem c19ks_keys_listing : forall O e s, Reach O s ->
  run_req O true e s (QKeys [STAR]) = Some (s, RArr (map RBulk (live_keys s)), false).
Proof. exact keys_star_listing. Qed.
Print Assumptions c19ks_keys_listing.

(* TYPE key = hash iff an object is retrievable from the key *)
Theorem c19ks_type_reply : forall O e s k, Reach O s ->
  ((exists id o, find s k id = Some o) -> run_req O true e s (QType k) = Some (s, ROk str_hash, false)) /\
  (~ (exists id o, find s k id = Some o) -> run_req O true e s (QType k) = Some (s, ROk str_none, false)).
Proof. exact type_reply. Qed.
Print Assumptions c19ks_type_reply.

(* the same after every program from the empty database (each step its own clock, any arguments) *)
Theorem c19ks_any_program : forall O p sf rs, run O true [] p = Some (sf, rs) ->
  (forall k, In k (keys sf) <-> exists id o, find sf k id = Some o) /\
  length sf = length (live_keys sf) /\
  (forall e, run_req O true e sf (QKeys [STAR]) = Some (sf, RArr (map RBulk (live_keys sf)), false)) /\
  (forall e k, ~ (exists id o, find sf k id = Some o) -> run_req O true e sf (QType k) = Some (sf, ROk str_none, false)).
Proof. exact program_keys_live. Qed.
Print Assumptions c19ks_any_program.

(* non-vacuity: refused writes on a key that does not exist (JSET with the path sjson refuses, SET XX,
   SET with a truncated POINT, FSET, EXPIRE) followed by an accepted JSET on another key: only the
   second key is registered *)
Example c19ks_nonvacuous :
  exists sf rs, run refusing_oracle true [] refused_prog = Some (sf, rs) /\ keys sf = [w_g] /\
    live_keys sf = [w_g] /\ nth 0 rs RNil = RErr w_err_path_refused /\ nth 5 rs RNil = ROk str_OK.
Proof. exact refused_prog_run. Qed.
