(* C03 — restart reproduces the acknowledged state: the generic theorems of Props/C03.v
   (c03_replay_equiv, c03_crash_prefix) instantiated with the keyspace model of C01.
   Only theorems, each closed by a lemma of Proofs/KsReplay.v.

   [ks_exec O e] = Model/Keyspace.exec (repaired tree) with a FROZEN environment e (same clock, leader,
   not read-only, in the live run and in the replay); its flag is "writeAOF appended the command".
   The generic hypothesis  noupd  holds in every state satisfying the invariant [inv] of C01
   (sorted keys/ids, no empty collection), which every command preserves and the empty database
   satisfies; the theorems are therefore stated for initial states with [inv]. *)
From T38 Require Import Base.Bytes Base.SMap Model.Field Model.Object Model.Glob Model.Spec Model.Keyspace
  Proofs.KsInv Proofs.KsProgram Proofs.KsReplay Proofs.KsDeadline.
From T38 Require Model.Resp Model.Aof Proofs.AofProofs Model.Replay.

(* a command that is not appended to the log left the dataset exactly as it was: reads, errors,
   negative answers, write handlers reporting updated = false — every command line, every oracle *)
Theorem c03ks_noupd : forall O e s c,
  inv s -> snd (ks_exec O e s c) = false -> fst (ks_exec O e s c) = s.
Proof. exact ks_noupd. Qed.
Print Assumptions c03ks_noupd.

(* every command preserves the invariant, so the theorems below apply along the whole run *)
Theorem c03ks_inv : forall O e s c, inv s -> inv (fst (ks_exec O e s c)).
Proof. exact ks_inv. Qed.
Print Assumptions c03ks_inv.

(* replaying the log reproduces the live state — any program, from any well-formed state *)
Theorem c03ks_replay_equiv : forall O e p s0, inv s0 ->
  Replay.replay state (ks_exec O e) (Replay.logof state (ks_exec O e) p s0) s0 = Replay.run state (ks_exec O e) p s0.
Proof. exact ks_replay_equiv. Qed.
Print Assumptions c03ks_replay_equiv.

(* ... in particular from the empty database *)
Theorem c03ks_replay_equiv_empty : forall O e p,
  Replay.replay state (ks_exec O e) (Replay.logof state (ks_exec O e) p []) [] = Replay.run state (ks_exec O e) p [].
Proof. exact ks_replay_equiv_empty. Qed.
Print Assumptions c03ks_replay_equiv_empty.

(* a kill leaves a byte prefix q of the file: start-up recovers exactly the state after a prefix p1
   of the program, truncates to the end of p1's log, and p1 holds every wholly written record *)
Theorem c03ks_crash_prefix : forall O e p s0 q t,
  inv s0 ->
  Forall AofProofs.cmd_ok (Replay.logof state (ks_exec O e) p s0) ->
  (q ++ t)%list = Resp.encs (Replay.logof state (ks_exec O e) p s0) ->
  exists p1 p2, p = (p1 ++ p2)%list /\
    Replay.recover state (ks_exec O e) q s0 =
      Some (Replay.run state (ks_exec O e) p1 s0, Resp.len (Resp.encs (Replay.logof state (ks_exec O e) p1 s0))) /\
    (Resp.len (Resp.encs (Replay.logof state (ks_exec O e) p1 s0)) <= Resp.len q)%Z /\
    (forall m, (m <= length (Replay.logof state (ks_exec O e) p s0))%nat ->
               (Resp.len (Resp.encs (firstn m (Replay.logof state (ks_exec O e) p s0))) <= Resp.len q)%Z ->
               (m <= length (Replay.logof state (ks_exec O e) p1 s0))%nat).
Proof. exact ks_crash_prefix. Qed.
Print Assumptions c03ks_crash_prefix.

(* Restart at another clock. Replaying the same log with a different frozen `now` (everything else in
   the environment equal) from states that agree up to deadline VALUES yields states that agree up to
   deadline values: same keys, ids, geometries, fields and has-deadline flags ([er] replaces every
   deadline by 0 / 1; c03ks_deadline_meaning spells it out).  Side condition [clock_ok]: no argument
   of a logged command, read as seconds, makes  wrap64 (now + int64(float64(time.Second)*x))  exactly
   0 at either clock — deadline 0 means "none", so `SET k id EX x` with now + x*1e9 = 0 stores an
   object WITHOUT deadline (only possible for x = -(unix time), see docs/notes/C01.md). *)
Theorem c03ks_deadline_kept : forall O e e' log,
  env_sim e e' -> Forall (clock_ok O e e') log ->
  forall s s', er s = er s' ->
  er (Replay.replay state (ks_exec O e) log s) = er (Replay.replay state (ks_exec O e') log s').
Proof. exact ks_deadline_kept. Qed.
Print Assumptions c03ks_deadline_kept.

(* ... hence a restart at clock e' of the log written at clock e reproduces the live state up to
   deadline values *)
Theorem c03ks_restart_deadline_kept : forall O e e' p s0,
  inv s0 -> env_sim e e' -> Forall (clock_ok O e e') (Replay.logof state (ks_exec O e) p s0) ->
  er (Replay.replay state (ks_exec O e') (Replay.logof state (ks_exec O e) p s0) s0) =
  er (Replay.run state (ks_exec O e) p s0).
Proof. exact ks_restart_deadline_kept. Qed.
Print Assumptions c03ks_restart_deadline_kept.

Theorem c03ks_deadline_meaning : forall s s', er s = er s' ->
  keys s = keys s' /\
  forall key id,
    match find s key id, find s' key id with
    | Some o, Some o' => o_id o = o_id o' /\ o_geo o = o_geo o' /\ o_fields o = o_fields o' /\
                         ((o_ex o =? 0)%Z = (o_ex o' =? 0)%Z)
    | None, None => True
    | _, _ => False
    end.
Proof. exact er_meaning. Qed.
Print Assumptions c03ks_deadline_meaning.

(* the side condition is satisfiable and the theorem is not vacuous: SET .. EX ; EXPIRE ; SET replayed
   at now = 5 and now = 1000 give different states that agree after erasing deadline values *)
Example c03ks_deadline_nonvacuous :
  env_sim (toy_env 5) (toy_env 1000) /\
  Forall (clock_ok toy_oracle (toy_env 5) (toy_env 1000)) dl_log /\
  Replay.replay state (ks_exec toy_oracle (toy_env 5)) dl_log [] <>
  Replay.replay state (ks_exec toy_oracle (toy_env 1000)) dl_log [] /\
  er (Replay.replay state (ks_exec toy_oracle (toy_env 5)) dl_log []) =
  er (Replay.replay state (ks_exec toy_oracle (toy_env 1000)) dl_log []).
Proof. exact deadline_kept_nonvacuous. Qed.

(* JDEL changes the dataset; it is logged because jdel is now in the write arm. With the pinned lock
   table (jdel in the default arm, finding F3) this very step produced no record and noupd failed. *)
Theorem c03ks_jdel_changes_and_is_logged :
  exists s s' r,
    Keyspace.run jd_oracle true [] [(toy_env 5, [kw_SET; w_k; w_a; w_STRING; w_speed])] = Some (s, [ROk str_OK]) /\
    exec jd_oracle true (toy_env 6) s [w_JDEL; w_k; w_a; w_1] = Done s' r [[w_JDEL; w_k; w_a; w_1]] /\
    s' <> s /\ arm_of (lower w_JDEL) = ArmWrite.
Proof. exact jdel_changes_and_is_logged. Qed.
Print Assumptions c03ks_jdel_changes_and_is_logged.

(* non-vacuity: SET ; GET ; SET — the GET is not logged; a file cut inside the 2nd record recovers
   the state after the first SET *)
Example c03ks_nonvacuous :
  let e := toy_env 5 in
  let c1 := [kw_SET; w_k; w_a; w_STRING; w_speed] in
  let c2 := [w_GET; w_k; w_a] in
  let c3 := [kw_SET; w_g; w_b; w_STRING; w_speed] in
  Replay.logof state (ks_exec toy_oracle e) [c1; c2; c3] [] = [c1; c3] /\
  Forall AofProofs.cmd_ok [c1; c3] /\
  exists sz, Replay.recover state (ks_exec toy_oracle e)
               (firstn (length (Resp.encs [c1]) + 7) (Resp.encs [c1; c3])) [] =
             Some (Replay.run state (ks_exec toy_oracle e) [c1] [], sz) /\
             sz = Resp.len (Resp.encs [c1]).
Proof.
  cbv zeta. split; [vm_compute; reflexivity|]. split.
  - repeat constructor; try discriminate; vm_compute; reflexivity.
  - eexists. split; [vm_compute; reflexivity | vm_compute; reflexivity].
Qed.
