(* C10 (continued) — "a webhook endpoint that fails temporarily receives every message queued meanwhile after
   it recovers (within the 30 s retention)": the retention of a freshly queued message.

   Props/C10.v counts the 30 s from the start of the history (in_retention) and its model writes `now + 30 s`
   for a fresh entry.  In the code the 30 s are a field of ONE options record shared through a pointer
   (hookLogSetDefaults) that queueHooks reads at every write.  Here that record is part of the state
   (Model/HookRetention.v), the way Hook.proc's retry obtains its options is the one t38x reads from the
   source (Gen/HookRetention.v), and the statements are per message: 30 s from the instant IT was queued.
   Only the property theorems; each is closed by a lemma of Proofs/HookRetentionProofs.v. *)
From Coq Require Import String List NArith ZArith Lia.
From T38 Require Import Model.Queues Proofs.QueuesHookProofs Gen.HookRetention Model.HookRetention
  Proofs.HookRetentionProofs.
Import ListNotations.

(* With the retry path of the source: a message queued at time t for hook h is owed to h -- delivered, being
   sent or queued -- at every later instant before t + 30 s, whatever the history before the write was (any
   number of failed deliveries of any hook, outages of any length, restarts, expired entries) and whatever
   happens afterwards (restarts only at quiet instants: stated limit of C10.v).  With c10_hook_eventually_all:
   once the endpoint answers again before t + 30 s the message is delivered. *)
Theorem c10_queued_message_retained_30s : forall pre t msgs post h m,
  let s1 := rrun source_retry source_default (rq_init source_default) (pre ++ [Enq t msgs]) in
  let q := r_q (rrun source_retry source_default s1 post) in
  quiet (r_q s1) post ->
  Forall (fun ev => (qtime ev < t + hook_ttl)%Z) post ->
  In (h, m) msgs ->
  exists e, e_hook e = h /\ e_msg e = m /\ e_exat e = (t + hook_ttl)%Z /\
            (In e (q_delivered q h) \/ In e (pending q h)).
Proof. exact source_queued_retained. Qed.
Print Assumptions c10_queued_message_retained_30s.

(* The source has a shape the model covers (one shared options record, Expires = true; queueHooks stores with it;
   one re-insert in Hook.proc with TTL = ttls[i] - time.Since(start); no write to the record and no escape of
   the pointer outside Hook.proc); the record holds 30 s at every instant of every history; and the queue with
   the record as state is the queue of Model/Queues.v, so every theorem of C10.v speaks about it. *)
Theorem c10_retention_default_constant : forall evs,
  source_shape_ok = true /\
  r_def (rrun source_retry source_default (rq_init source_default) evs) = hook_ttl /\
  r_q (rrun source_retry source_default (rq_init source_default) evs) = qrun hq_init evs.
Proof. exact source_refines_queues. Qed.
Print Assumptions c10_retention_default_constant.

(* No statement of internal/server writes to a package-level options record, through a field of it or through
   a local alias of the pointer, and the pointer is handed to nothing but the options argument of Tx.Set. *)
Theorem c10_nothing_writes_retention_default : setopts_writes = [].
Proof. exact source_nothing_writes_default. Qed.
Print Assumptions c10_nothing_writes_retention_default.

(* Refuted for the retry path that takes the shared pointer and assigns the remaining TTL through it
   (`opts := hookLogSetDefaults; opts.TTL = ttl`): one failed delivery 29 s after a write leaves 1 s in the
   record; the next message gets 1 s instead of 30 s and is gone 1.5 s after it was queued. *)
Theorem c10_retry_through_shared_default_refuted : exists pre t msgs post h m,
  let s1 := rrun RetryThroughDefault hook_ttl (rq_init hook_ttl) (pre ++ [Enq t msgs]) in
  let q := r_q (rrun RetryThroughDefault hook_ttl s1 post) in
  quiet (r_q s1) post /\
  Forall (fun ev => (qtime ev < t + hook_ttl)%Z) post /\
  In (h, m) msgs /\
  ~ In m (map e_msg (q_delivered q h ++ pending q h)) /\
  r_def s1 = 1000%Z.
Proof. exact through_default_loses. Qed.
Print Assumptions c10_retry_through_shared_default_refuted.

(* non-vacuity: an outage with four failed deliveries, a message queued late in it, a second outage with
   messages queued before and in it; everything inside 30 s of the respective write; all four delivered in order, and
   each message had 30 s when it was queued *)
Example c10_retention_nonvacuous :
  let pre := [Enq 0 [(1, 10)]; Mgr 1 1 []; Mgr 1 2 [false]; Mgr 1 500 []; Mgr 1 501 [false];
              Mgr 1 1000 []; Mgr 1 1001 [false]; Mgr 1 1500 []; Mgr 1 1501 [false]]%N%Z in
  let post := [Mgr 1 2500 []; Mgr 1 2501 []; Enq 3000 [(1, 12)]; Mgr 1 3100 []; Mgr 1 3101 [false];
               Enq 3200 [(1, 13)]; Mgr 1 3600 []; Mgr 1 3601 []]%N%Z in
  let s1 := rrun source_retry source_default (rq_init source_default) (pre ++ [Enq 2000 [(1, 11)]%N]) in
  quiet (r_q s1) post /\
  map e_msg (q_delivered (r_q (rrun source_retry source_default s1 post)) 1%N) = [10; 11; 12; 13]%N /\
  map snd (fresh_ttls source_retry source_default (rq_init source_default) (pre ++ Enq 2000 [(1, 11)]%N :: post))
    = [30000; 30000; 30000; 30000]%Z /\
  map snd (fresh_ttls RetryThroughDefault hook_ttl (rq_init hook_ttl) (pre ++ Enq 2000 [(1, 11)]%N :: post))
    = [30000; 28499; 28499; 28398]%Z.
Proof. cbv zeta. split; [cbn [quiet]; tauto | vm_compute; auto]. Qed.
