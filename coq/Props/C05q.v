(* C05 (continuation) — "the SET/FSET results are identical for a webhook, a channel and a live
   connection", with the webhook's queue and retries in between.

   Props/C05.v states the equality for what queueHooks hands to the three paths for ONE write.  A
   webhook's messages then sit in the hook queue until the hook's manager (Hook.proc) has sent
   them, re-inserting the failed message and all following ones when a send fails.  Here C10's
   queue model (Model/Queues.v: Enq, the two halves of proc, send outcomes) is composed with
   queue_hooks (Model/FenceQueue.v), and the equality is stated for what the ENDPOINT accepts,
   over whole write histories and for every endpoint failure pattern within the retention period.
   Only property theorems; each is closed by a lemma of Proofs/FenceQueueProofs.v. *)
From Coq Require Import List Bool NArith ZArith Lia.
From T38 Require Import Base.Bytes Model.Fence Model.HookReg Model.Queues Model.FenceQueue
  Proofs.FenceProofs Proofs.FenceRegProofs Proofs.FenceSinkProofs Proofs.QueuesHookProofs Proofs.FenceQueueProofs.
Import ListNotations.

(* At every instant of every history (writes interleaved with the halves of Hook.proc of any
   webhooks, any send outcomes), inside the retention period: the messages the writes queued for
   webhook n are exactly  accepted-by-the-endpoint ++ still-owed.  So a failed send never makes a
   message disappear, overtake another or arrive twice. *)
Theorem c05_webhook_queue_prefix : forall nm evs n,
  in_retention (hist nm evs) -> no_collision nm evs n ->
  webhook_stream evs n = webhook_accepted nm evs n ++ webhook_owed nm evs n.
Proof. exact webhook_queue_prefix. Qed.
Print Assumptions c05_webhook_queue_prefix.

(* Once the endpoint answers again, three more halves of proc hand over everything. *)
Theorem c05_webhook_queue_eventually : forall nm evs n t1 t2 t3,
  in_retention (hist nm (evs ++ recovered n t1 t2 t3)) -> no_collision nm evs n ->
  webhook_accepted nm (evs ++ recovered n t1 t2 t3) n = webhook_stream evs n /\
  webhook_owed nm (evs ++ recovered n t1 t2 t3) n = [].
Proof. exact webhook_queue_eventually. Qed.
Print Assumptions c05_webhook_queue_eventually.

(* What the endpoint of webhook h finally accepts: h's own FenceMatch result of every write for
   which h was a candidate, in write order (c05_sink_delivery through the queue). *)
Theorem c05_webhook_queue_own : forall nm evs h t1 t2 t3,
  h_chan h = false ->
  in_retention (hist nm (evs ++ recovered (h_name h) t1 t2 t3)) ->
  no_collision nm evs (h_name h) ->
  Forall (own_reg h) (writes_of evs) ->
  webhook_accepted nm (evs ++ recovered (h_name h) t1 t2 t3) (h_name h) =
  flat_map (fun w => if existsb (fun x => bytes_eqb (h_name x) (h_name h)) (w_cl w)
                     then msgs_of (fence_match (w_af w h) (h_detect h) (w_cf w h)) else []) (writes_of evs).
Proof. exact webhook_queue_own. Qed.
Print Assumptions c05_webhook_queue_own.

(* Identical for the three sinks.  hw a webhook, hc a channel with the same fence definition (key k,
   DETECT D, area a) and a live connection with that definition; every write of the history is a
   SET / FSET (or other object-carrying write) on k satisfying the hypotheses of
   c05_same_for_all_sinks (same_def); the writes are interleaved in any way with manager steps of
   any webhooks under ANY send outcomes.  After recovery the endpoint has accepted, in order and
   exactly once, the messages published on the channel = the messages of the live connection. *)
Theorem c05_same_for_all_sinks_queued : forall nm evs hw hc k D a t1 t2 t3,
  in_retention (hist nm (evs ++ recovered (h_name hw) t1 t2 t3)) ->
  no_collision nm evs (h_name hw) ->
  Forall (same_def hw hc k D a) (writes_of evs) ->
  webhook_accepted nm (evs ++ recovered (h_name hw) t1 t2 t3) (h_name hw) = channel_stream evs (h_name hc) /\
  channel_stream evs (h_name hc) = live_stream k D hw evs /\
  webhook_owed nm (evs ++ recovered (h_name hw) t1 t2 t3) (h_name hw) = [].
Proof. exact same_for_all_sinks_queued. Qed.
Print Assumptions c05_same_for_all_sinks_queued.

(* ... and at every earlier instant what the endpoint has accepted is a prefix of the channel's
   sequence, the rest being still owed to it. *)
Theorem c05_webhook_prefix_of_channel : forall nm evs hw hc k D a,
  in_retention (hist nm evs) -> no_collision nm evs (h_name hw) ->
  Forall (same_def hw hc k D a) (writes_of evs) ->
  channel_stream evs (h_name hc) = webhook_accepted nm evs (h_name hw) ++ webhook_owed nm evs (h_name hw).
Proof. exact webhook_prefix_of_channel. Qed.
Print Assumptions c05_webhook_prefix_of_channel.

(* the message code loses nothing *)
Theorem c05_msg_code_faithful : forall m, msg_decode (msg_code m) = m.
Proof. exact decode_code. Qed.
Print Assumptions c05_msg_code_faithful.

(* ---- non-vacuity: a failure in the middle of a batch ---- *)
Definition Dq_default : dset :=
  {| d_nil := true; d_inside := false; d_outside := false; d_enter := false; d_exit := false; d_cross := false |}.
Definition sqq (x y : Z) : rect := {| minx := x; miny := y; maxx := (x + 10)%Z; maxy := (y + 10)%Z |}.
Definition hq_chan (n : N) : hook :=
  {| h_name := [n]; h_chan := true; h_key := [107%N]; h_detect := Dq_default; h_area := Some (sqq 0 0); h_expires := false |}.
Definition hq_hook : hook :=
  {| h_name := [5%N]; h_chan := false; h_key := [107%N]; h_detect := Dq_default; h_area := Some (sqq 0 0); h_expires := false |}.
Definition q_in := {| o_sp := true; o_flt := true |}.
Definition q_out := {| o_sp := false; o_flt := true |}.
Definition q_cl := [hq_chan 3; hq_hook; hq_chan 1].
(* outside -> inside, then inside -> outside *)
Definition q_w1 : fwrite := mkFW 0 [107%N] q_cl (fun _ => move_case CSet (Some q_out) q_in false) (fun _ => true).
Definition q_w2 : fwrite := mkFW 10 [107%N] q_cl (fun _ => move_case CSet (Some q_in) q_out false) (fun _ => true).
Definition q_nm (b : bytes) : hookid := hd 0%N b.
Definition q_reg := reg_run [RSet (hq_chan 1) false; RSet hq_hook false; RSet (hq_chan 3) false].

(* the manager takes [enter; inside], the endpoint accepts enter and fails on inside; both writes
   happen before / after; later rounds find the endpoint healthy *)
Definition q_hist : list sev :=
  [SWrite q_w1; SProc [5%N] 5 []; SProc [5%N] 7 [true; false]; SWrite q_w2; SProc [5%N] 600 [false]].

Example c05_queue_example :
  same_def hq_hook (hq_chan 1) [107%N] Dq_default (sqq 0 0) q_w1 /\
  same_def hq_hook (hq_chan 1) [107%N] Dq_default (sqq 0 0) q_w2 /\
  no_collision q_nm q_hist [5%N] /\
  in_retention (hist q_nm (q_hist ++ recovered [5%N] 601 1200 1201)) /\
  (* after the failed send of "inside" *)
  webhook_accepted q_nm (firstn 3 q_hist) [5%N] = [FM DEnter] /\
  webhook_owed q_nm (firstn 3 q_hist) [5%N] = [FM DInside] /\
  (* the whole history, the endpoint still failing *)
  webhook_accepted q_nm q_hist [5%N] = [FM DEnter] /\
  webhook_owed q_nm q_hist [5%N] = [FM DInside; FM DExit; FM DOutside] /\
  (* after recovery *)
  webhook_accepted q_nm (q_hist ++ recovered [5%N] 601 1200 1201) [5%N] = [FM DEnter; FM DInside; FM DExit; FM DOutside] /\
  channel_stream q_hist [1%N] = [FM DEnter; FM DInside; FM DExit; FM DOutside] /\
  live_stream [107%N] Dq_default hq_hook q_hist = [FM DEnter; FM DInside; FM DExit; FM DOutside].
Proof.
  assert (Hsd : forall w old_r new_r,
            w_key w = [107%N] -> w_cl w = q_cl ->
            (forall h, In h q_cl <-> In h (candidates q_reg [107%N] old_r new_r)) ->
            w_cf w (hq_chan 1) = w_cf w hq_hook -> w_af w (hq_chan 1) = w_af w hq_hook ->
            is_move (c_cmd (w_cf w hq_hook)) = true ->
            (sp_of (c_obj (w_cf w hq_hook)) = true -> exists r2, new_r = Some r2 /\ overlaps (sqq 0 0) r2 = true) ->
            (sp_of (c_old (w_cf w hq_hook)) = true -> exists r1, old_r = Some r1 /\ overlaps (sqq 0 0) r1 = true) ->
            c_cross (w_cf w hq_hook) = false ->
            same_def hq_hook (hq_chan 1) [107%N] Dq_default (sqq 0 0) w).
  { intros w old_r new_r Hk Hcl Hc Hx Ha Hm Hn Ho Hcr. split; [exact Hk|].
    exists q_reg, old_r, new_r. rewrite Hcl.
    split; [apply registry_inv|].
    split; [vm_compute; repeat constructor; cbn; intuition discriminate|].
    split; [exact Hc|].
    split; [vm_compute; tauto|]. split; [vm_compute; tauto|].
    repeat (split; [reflexivity|]).
    split; [exact Hx|]. split; [exact Ha|]. split; [exact Hm|]. split; [exact Hn|]. split; [exact Ho|].
    rewrite Hcr. discriminate. }
  split; [|split; [|split; [|split]]].
  - apply (Hsd q_w1 (Some (sqq 50 50)) (Some (sqq 5 5))); try reflexivity.
    + intro h. vm_compute. intuition.
    + intros _. exists (sqq 5 5). split; reflexivity.
    + cbn. discriminate.
  - apply (Hsd q_w2 (Some (sqq 5 5)) (Some (sqq 50 50))); try reflexivity.
    + intro h. vm_compute. intuition.
    + cbn. discriminate.
    + intros _. exists (sqq 5 5). split; reflexivity.
  - intros w x Hw Hx Hn. cbn in Hw. destruct Hw as [<-|[<-|[]]]; cbn in Hx;
      destruct Hx as [<-|[<-|[<-|[]]]]; cbn in Hn; try discriminate; reflexivity.
  - unfold in_retention. cbn [hist map qev_of app q_hist recovered]. unfold enq_of, q_w1, q_w2.
    repeat (apply Forall_cons; [cbn [qtime w_now]; unfold hook_ttl; lia|]). apply Forall_nil.
  - vm_compute. repeat split; reflexivity.
Qed.
