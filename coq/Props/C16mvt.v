(* C16, continued — the HTTP request path after framing: the tile-path rewrite of handleInputCommand
   (mvtFilterHTTPArgs) belongs to the no-panic family.  Only the property theorems, each closed by a lemma of
   Proofs/MvtArgsProofs.v.  Model: Model/MvtArgs.v; source facts: Gen/MvtArgs.v (t38x/mvtargs.go). *)
From T38 Require Import Base.Bytes Model.Resp Model.Pipeline Model.MvtArgs Model.HandoverFacts Proofs.MvtArgsProofs.
From T38 Require Gen.MvtArgs.

(* the source is the model: mvtFilterHTTPArgs up to its unescape loop (guard `len(parts) != 4` included), its
   only call site (query split off at the first '?', ".mvt" / ".pbf" suffix test) and the fact that nothing
   else calls it, statement by statement *)
Theorem c16_mvt_source_transcribed :
  strs_eqb Gen.MvtArgs.mvt_filter_prefix expected_mvt_prefix = true /\
  str_eqb Gen.MvtArgs.mvt_call_site expected_mvt_call_site = true /\
  strs_eqb Gen.MvtArgs.mvt_callers expected_mvt_callers = true.
Proof. exact mvt_source_transcribed. Qed.
Print Assumptions c16_mvt_source_transcribed.

(* EVERY one-argument HTTP request path — any number of segments, empty segments, any extension, escapes,
   a query or none — goes through the call site and the rewrite without a run-time panic: with exactly four
   segments the fourth is the last one and carries the 4-byte extension that was tested for *)
Theorem c16_mvt_no_panic : forall arg0, mvt_entry mvt_reject_exact4 arg0 <> MPanic.
Proof. exact mvt_entry_exact4_no_panic. Qed.
Print Assumptions c16_mvt_no_panic.

(* the guard matters: with `len(parts) < 4` the path tiles/fleet/10/193/413.mvt slices parts[3] = "193" with a
   negative bound (the whole process exits: the panic is raised on the connection goroutine outside the recover
   of the framing parser); with the guard of the source it is an unknown command, and fleet/10/193/413.mvt?limit=5
   is the tile request INTERSECTS fleet ... MVT 193 413 10 *)
Theorem c16_mvt_below4_refuted :
  mvt_entry mvt_reject_below4 w_prefixed_tile = MPanic /\
  mvt_entry mvt_reject_exact4 w_prefixed_tile = MNo /\
  mvt_entry mvt_reject_exact4 [102;108;101;101;116;47;49;48;47;49;57;51;47;52;49;51;46;109;118;116;63;108;105;109;105;116;61;53]%N
    = MYes [102;108;101;101;116]%N [49;48]%N [49;57;51]%N [52;49;51]%N.
Proof. exact mvt_below4_panics. Qed.
Print Assumptions c16_mvt_below4_refuted.
