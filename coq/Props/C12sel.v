(* C12 (continuation) — the selecting iterations above glob.Parse / glob.Match and the COUNT
   shortcut: several MATCH patterns in one SCAN / SEARCH (multiGlobParse + ScanRange /
   SearchValuesRange, both directions), HOOKS / CHANS / PDELHOOK / PDELCHAN over the one tree
   that holds hooks and channels, and COUNT answered from the collection counters.
   Only property theorems, each closed by a lemma of Proofs/GlobSelProofs.v. *)
From T38 Require Import Base.Bytes Model.Glob Proofs.GlobProofs.
From T38 Require Import Model.Collection Proofs.CollectionProofs Model.GlobSel Proofs.GlobSelProofs.
Import ListNotations.

(* SCAN key MATCH p1 ... MATCH pn [WHERE ...] [DESC] [LIMIT n] IDS | COUNT.  The model is the loop
   as written: the entries multiGlobParse + Scan / ScanRange visit, each handed to
   pushObject -> testObject -> globMatch with their (ok, keepGoing) results, the walk ending at
   the first keepGoing = false.  Neither the range derived from all the patterns nor any early
   exit changes the result: the reply is the first LIMIT ids accepted by MATCH (some pattern
   matches) and by the field filter, in id order (reversed for DESC); COUNT is their number. *)
Theorem c12_scan_multi_match_exact : forall globs fok limit (desc : bool) (ids : list bytes),
  bsorted ids -> (forall p, In p globs -> prefix_ends_ff p = false) -> (1 <= limit)%N ->
  let all := if desc then rev ids else ids in
  out_items (scan_multi globs fok limit false desc ids) =
    firstn (N.to_nat limit) (filter (scan_sel globs fok) all) /\
  out_count (scan_multi globs fok limit true desc ids) =
    N.min limit (N.of_nat (length (filter (scan_sel globs fok) all))).
Proof. exact scan_multi_exact. Qed.
Print Assumptions c12_scan_multi_match_exact.

(* the same for SEARCH, where the patterns are applied to the string VALUE: entries (value, id)
   in (value, id) order, any number of ids sharing one value — all of them are returned *)
Theorem c12_search_multi_match_exact : forall globs fok limit (desc : bool) (vs : list ventry),
  vsorted vs -> (forall p, In p globs -> prefix_ends_ff p = false) -> (1 <= limit)%N ->
  let all := if desc then rev vs else vs in
  map snd (out_items (search_multi globs fok limit false desc vs)) =
    map snd (firstn (N.to_nat limit) (filter (search_sel globs fok) all)) /\
  out_count (search_multi globs fok limit true desc vs) =
    N.min limit (N.of_nat (length (filter (search_sel globs fok) all))).
Proof. exact search_multi_exact. Qed.
Print Assumptions c12_search_multi_match_exact.

(* the iteration-control results themselves: globMatch and testObject never ask the walk to stop *)
Theorem c12_test_object_keeps_going : forall (globs : list bytes) (fok : ventry -> bool) (e : ventry),
  glob_match_kg globs fst e = (glob_test globs (fst e), true) /\
  test_object globs fst fok e = (search_sel globs fok e, true).
Proof. exact test_object_keeps_going. Qed.
Print Assumptions c12_test_object_keeps_going.

(* ASC / DESC only reverse the order, for any number of patterns (LIMIT above the collection size) *)
Theorem c12_scan_multi_desc_only_reverses : forall globs fok limit ids,
  bsorted ids -> (forall p, In p globs -> prefix_ends_ff p = false) -> (N.of_nat (length ids) < limit)%N ->
  out_items (scan_multi globs fok limit false true ids) = rev (out_items (scan_multi globs fok limit false false ids)).
Proof. exact scan_multi_desc_rev. Qed.
Print Assumptions c12_scan_multi_desc_only_reverses.

(* HOOKS pattern / CHANS pattern list exactly the entries of the asked kind whose name matches,
   whatever entries of the other kind sit between them in the shared tree. *)
Theorem c12_hook_walk_exact : forall pattern channel entries,
  hsorted entries -> prefix_ends_ff pattern = false ->
  hook_walk pattern channel entries = map fst (filter (hsel pattern channel) entries).
Proof. exact hook_walk_exact. Qed.
Print Assumptions c12_hook_walk_exact.

(* PDELHOOK / PDELCHAN report the number of selected entries and leave exactly the others. *)
Theorem c12_pdel_hooks_exact : forall pattern channel entries,
  hsorted entries -> prefix_ends_ff pattern = false ->
  pdel_hooks pattern channel entries =
  (length (filter (hsel pattern channel) entries),
   filter (fun e => negb (hsel pattern channel e)) entries).
Proof. exact pdel_hooks_exact. Qed.
Print Assumptions c12_pdel_hooks_exact.

(* The COUNT shortcut never changes the result: after every history of Collection.Set /
   Collection.Delete (any mix of strings, geometries, empty geometries, replacements that change
   the kind of an id, expiring objects) the unfiltered SEARCH COUNT / SCAN COUNT answered from
   the counters equals what the counting iteration over the value index / the ids returns, for
   every cursor and LIMIT. *)
Theorem c12_count_shortcut_exact : forall ops cursor limit,
  let c := run ops in
  search_count_shortcut c cursor limit = iter_count (search_values c) cursor limit /\
  scan_count_shortcut c cursor limit = iter_count (scan_ids c) cursor limit.
Proof. exact count_shortcut_exact. Qed.
Print Assumptions c12_count_shortcut_exact.

(* non-vacuity: two patterns with different literal prefixes, DESC, a limited range that must
   reach down to the smaller prefix; hooks and channels interleaved; a history that deletes an
   empty geometry and changes the kind of an id *)
Example c12_sel_nonvacuous :
  let a1 := [97; 49] in let a2 := [97; 50] in let c1 := [99; 49] in let d1 := [100; 49] in
  out_items (scan_multi [[97; STAR]; [99; STAR]] (fun _ => true) 100 false true [a1; a2; c1; d1]) = [c1; a2; a1] /\
  (* three ids share the value "a1": a literal MATCH returns all of them, COUNT = 3 *)
  map snd (out_items (search_multi [a1] (fun _ => true) 100 false false [(a1, a1); (a1, a2); (a1, c1); (c1, d1)])) = [a1; a2; c1] /\
  out_count (search_multi [a1] (fun _ => true) 100 true true [(a1, a1); (a1, a2); (a1, c1); (c1, d1)]) = 3%N /\
  multi_glob_parse [[97; STAR]; [99; STAR]] true = ([100], [96]) /\
  hook_walk [STAR] false [(a1, false); (a2, true); (c1, false)] = [a1; c1] /\
  hook_walk [97; STAR] true [(a1, false); (a2, true); (c1, true)] = [a2].
Proof. vm_compute. repeat split. Qed.
