(* C11 — Cursor pagination is complete and duplicate-free.
   Only the property theorems, each closed by a lemma of Proofs/CursorProofs.v.
   `src`  = the index order of the unchanging collection (any list),
   `test` = the query's filters, `stop` = the iterator's early exit (range end / radius). *)
From Coq Require Import List NArith ZArith Sorted.
From T38 Require Import Base.Bytes Model.Cursor Proofs.CursorProofs.
Import ListNotations.
Open Scope N_scope.

(* Re-issuing the query with the returned cursor until it is 0 terminates (the fuel
   length src + 1 suffices) and the pages, concatenated, are exactly the reply of one unlimited
   query: nothing skipped, nothing repeated, same order.  All sources, filters, early exits,
   all LIMIT >= 1. *)
Theorem c11_pages : forall (A : Type) (test stop : A -> bool) (src : list A) (limit : N),
  1 <= limit ->
  exists ps, pages test stop src limit = Pages ps /\ concat ps = unlimited test stop src.
Proof. exact @pages_complete. Qed.
Print Assumptions c11_pages.

(* LIMIT 0 / no LIMIT is the default of 100 items, so the hypothesis holds for every request *)
Theorem c11_effective_limit_positive : forall limit, 1 <= eff_limit limit.
Proof. exact eff_limit_pos. Qed.
Print Assumptions c11_effective_limit_positive.

(* no index entry is delivered twice *)
Theorem c11_no_duplicates : forall (A : Type) (test stop : A -> bool) (src : list A) (limit : N) ps,
  1 <= limit -> NoDup src -> pages test stop src limit = Pages ps -> NoDup (concat ps).
Proof. exact @pages_nodup. Qed.
Print Assumptions c11_no_duplicates.

(* a 0 cursor only when nothing remains (from any start cursor c) *)
Theorem c11_zero_cursor : forall (A : Type) (test stop : A -> bool) (src : list A) (c limit : N),
  1 <= limit -> snd (page test stop src c limit) = 0 ->
  fst (page test stop src c limit) = unlimited test stop (rest_at src c).
Proof. exact @zero_cursor. Qed.
Print Assumptions c11_zero_cursor.

(* a non-zero cursor c' is a position c < c' <= |src|, the page holds exactly LIMIT items, they
   are the accepted entries of positions [c, c'), and what remains is what the unlimited query
   returns from c' on *)
Theorem c11_nonzero_cursor : forall (A : Type) (test stop : A -> bool) (src : list A) (c limit : N),
  1 <= limit -> snd (page test stop src c limit) <> 0 ->
  let c' := snd (page test stop src c limit) in
  c < c' /\ c' <= N.of_nat (length src) /\
  N.of_nat (length (fst (page test stop src c limit))) = limit /\
  fst (page test stop src c limit) = filter test (firstn (N.to_nat (c' - c)) (rest_at src c)) /\
  unlimited test stop (rest_at src c) =
    fst (page test stop src c limit) ++ unlimited test stop (rest_at src c').
Proof. exact @nonzero_cursor. Qed.
Print Assumptions c11_nonzero_cursor.

(* instances.  SCAN, SEARCH, SEARCH with a value range (SearchValuesRange cuts the range before
   counting), WITHIN, INTERSECTS: iterators without an early exit after the count *)
Theorem c11_scan_search_within_intersects : forall (A : Type) (test : A -> bool) (src : list A) (limit : N),
  1 <= limit ->
  exists ps, pages test (fun _ => false) src limit = Pages ps /\ concat ps = filter test src.
Proof. exact @pages_no_stop. Qed.
Print Assumptions c11_scan_search_within_intersects.

(* ASC / DESC: the DESC pages concatenate to the reverse of the ASC pages, for any two LIMITs *)
Theorem c11_asc_desc : forall test ids limit1 limit2 ps1 ps2,
  1 <= limit1 -> 1 <= limit2 ->
  pages test (fun _ => false) (scan_src false ids) limit1 = Pages ps1 ->
  pages test (fun _ => false) (scan_src true ids) limit2 = Pages ps2 ->
  concat ps2 = rev (concat ps1).
Proof. exact scan_desc_rev. Qed.
Print Assumptions c11_asc_desc.

(* range-limited SCAN (MATCH with a literal prefix -> ScanRange), both directions: the pages are
   exactly the accepted ids of the range, in scan order *)
Theorem c11_scan_range : forall test desc start end_ ids limit,
  asc_sorted ids -> 1 <= limit ->
  exists ps, pages test (scan_range_stop desc end_) (scan_range_src desc start ids) limit = Pages ps /\
             concat ps = filter test (scan_src desc (filter (in_range desc start end_) ids)).
Proof. exact scan_range_pages. Qed.
Print Assumptions c11_scan_range.

(* NEARBY with a radius over a distance-sorted order (C13 provides the sortedness): the pages are
   exactly the accepted entries within the radius *)
Theorem c11_nearby_radius : forall test max_dist order limit,
  StronglySorted (fun a b : bytes * Z => (snd a <= snd b)%Z) order -> 1 <= limit ->
  exists ps, pages test (nearby_stop max_dist) order limit = Pages ps /\
             concat ps = filter test (filter (fun e => negb (nearby_stop max_dist e)) order).
Proof. exact nearby_pages. Qed.
Print Assumptions c11_nearby_radius.

(* COUNT output goes through the same iteration but never touches numberItems / hitLimit: with the
   same cursor and LIMIT it answers the number of items the item outputs (IDS, OBJECTS, POINTS,
   BOUNDS, HASHES) put on that page.  The output kind takes no part in pagination. *)
Theorem c11_count_eq_items : forall (A : Type) (test stop : A -> bool) (src : list A) (c limit : N),
  1 <= limit ->
  count_query test stop src c limit = N.of_nat (length (fst (page test stop src c limit))).
Proof. exact @count_eq_items. Qed.
Print Assumptions c11_count_eq_items.

(* the COUNT shortcut of cmdScan / cmdSearch (no filter) capped by LIMIT — the repaired form of
   proposed_fixes/C12-count-shortcut-limit.diff — never changes the result *)
Theorem c11_count_shortcut_capped : forall (A : Type) (src : list A) (cursor limit : N),
  1 <= limit ->
  count_shortcut src cursor limit = count_query (fun _ => true) (fun _ => false) src cursor limit.
Proof. exact @count_shortcut_exact. Qed.
Print Assumptions c11_count_shortcut_capped.

(* the shortcut as it is today ignores LIMIT: SCAN k LIMIT 2 COUNT on 6 objects answers 6, the
   counting iteration (any filter that accepts everything) and IDS give 2.  Property C12's "count
   shortcuts never change results"; reported to C12, recorded by the C11 harness as an observation. *)
Theorem c11_count_shortcut_unpatched_refuted :
  exists (src : list N) cursor limit, 1 <= limit /\
    count_shortcut_unpatched src cursor <> count_query (fun _ => true) (fun _ => false) src cursor limit.
Proof. exists [1; 2; 3; 4; 5; 6], 0, 2. split; [discriminate | vm_compute; discriminate]. Qed.
Print Assumptions c11_count_shortcut_unpatched_refuted.

(* non-vacuity: 7 entries, a filter that rejects two of them, an early exit at the 7th, LIMIT 2:
   three pages with cursors 2, 5 (limit hit on the last accepted entry) and 0 *)
Example c11_nonvacuous :
  let test := fun x : N => negb (x mod 3 =? 0) in
  let stop := fun x : N => 7 <=? x in
  pages test stop [1; 2; 3; 4; 5; 6; 7] 2 = Pages [[1; 2]; [4; 5]; []] /\
  page test stop [1; 2; 3; 4; 5; 6; 7] 0 2 = ([1; 2], 2) /\
  page test stop [1; 2; 3; 4; 5; 6; 7] 2 2 = ([4; 5], 5) /\
  page test stop [1; 2; 3; 4; 5; 6; 7] 5 2 = ([], 0) /\
  unlimited test stop [1; 2; 3; 4; 5; 6; 7] = [1; 2; 4; 5].
Proof. vm_compute. repeat split. Qed.

Example c11_range_nonvacuous :
  asc_sorted [[97]; [98]; [98; 1]; [99]] /\
  scan_range_page (fun _ => true) false [98] [99] [[97]; [98]; [98; 1]; [99]] 0 1 = ([[98]], 1) /\
  scan_range_page (fun _ => true) false [98] [99] [[97]; [98]; [98; 1]; [99]] 1 1 = ([[98; 1]], 2) /\
  scan_range_page (fun _ => true) false [98] [99] [[97]; [98]; [98; 1]; [99]] 2 1 = ([], 0).
Proof. split; [repeat constructor | vm_compute; repeat split]. Qed.
