(* C05 — Fence notifications follow the documented enter/exit/inside/outside/cross rules.
   Only the property theorems, each closed by a lemma of Proofs/FenceProofs.v or
   Proofs/FenceRegProofs.v.  Model: Model/Fence.v (fenceMatch / FenceMatch, doc_msgs) and
   Model/HookReg.v (registries, getQueueCandidates). *)
From Coq Require Import List Bool ZArith.
From T38 Require Import Base.Bytes Model.Fence Model.HookReg Proofs.FenceProofs Proofs.FenceRegProofs Proofs.FenceSinkProofs.
Import ListNotations.

(* The table.  For every DETECT value (no clause, or any of the 32 subsets), every SET / FSET (and
   any other object-carrying command, which fenceMatch treats like SET) that passes the guards,
   every previous object (absent, or spatially inside/outside x passing/failing the filters; FSET
   carries none), every new object and either value of "the straight path crosses the area", the
   transcribed fenceMatch yields exactly the documented messages, in the documented order.
   "Inside" = spatially inside and passing the fence's filters; doc_all states the three
   refinements R1-R3 of the real code (Model/Fence.v). *)
Theorem c05_table : forall D c old new cross,
  is_move c = true ->
  fence_match true D (move_case c old new cross) = FOk (map FM (doc_msgs D c old new cross)).
Proof. exact fence_table. Qed.
Print Assumptions c05_table.

(* The guards and short-cuts, for every case of the abstract domain: the fallback loop always
   terminates; a missing object, an id outside the MATCH globs, a non-spatial object, FSET on a
   NOFIELDS fence, a COUNT-output fence or a COMMANDS filter not naming the command silence the
   fence; DROP yields one "drop" message and DEL of a matching spatial object one "del" message. *)
Theorem c05_guards : forall D x acc,
  fence_match acc D x <> FFuel /\
  (guard_fails x = true \/ acc = false -> fence_match acc D x = FOk []) /\
  (acc = true -> c_cmd x = CDrop -> fence_match acc D x = FOk [FDrop]) /\
  (acc = true -> c_cmd x = CDel -> guard_fails x = false -> fence_match acc D x = FOk [FDel]).
Proof. exact fence_guards. Qed.
Print Assumptions c05_guards.

(* One fence's messages for one write have strictly increasing msgDetectCode weights, so the
   stable sort of sortMsgs by (weight, hook name) never reorders them. *)
Theorem c05_order_kept : forall D x acc l,
  fence_match acc D x = FOk l -> increasing (map weight l) = true.
Proof. exact fence_weights_increasing. Qed.
Print Assumptions c05_order_kept.

(* In every registry state reachable by SETHOOK/SETCHAN, DELHOOK/DELCHAN (and hook expiry),
   PDELHOOK/PDELCHAN and FLUSHDB, hook names are unique and hooksOut / hookTree / hookCross /
   hookExpires hold exactly the hooks that detect "outside" / have an area / have an area and
   an explicit "cross" / carry an expiry. *)
Theorem c05_registry_inv : forall ops, reg_inv (reg_run ops).
Proof. exact registry_inv. Qed.
Print Assumptions c05_registry_inv.

(* Whether a hook is among getQueueCandidates' candidates for a write depends on that hook and the
   write only: the population of other hooks never changes it. *)
Theorem c05_candidates_local : forall r k old new h,
  reg_inv r ->
  (In h (candidates r k old new) <-> In h (hooks r) /\ h_key h = k /\ cand_cond h old new = true).
Proof. exact candidates_local. Qed.
Print Assumptions c05_candidates_local.

(* A static fence that would produce a message for a SET / FSET is a candidate, under the oracle
   hypotheses "a spatial hit implies overlapping bounding rectangles" (for the two objects and for
   the old-centre -> new-centre line, whose rectangle lies in the hull of the two objects'
   rectangles: c05_cross_hull). *)
Theorem c05_candidates_complete : forall r k h a x acc l old_r new_r,
  reg_inv r -> In h (hooks r) -> h_key h = k -> h_area h = Some a ->
  is_move (c_cmd x) = true ->
  (sp_of (c_obj x) = true -> exists r2, new_r = Some r2 /\ overlaps a r2 = true) ->
  (sp_of (c_old x) = true -> exists r1, old_r = Some r1 /\ overlaps a r1 = true) ->
  (c_cross x = true -> is_some (c_old x) = true -> is_some (c_obj x) = true ->
     exists r1 r2, old_r = Some r1 /\ new_r = Some r2 /\ overlaps a (hull r1 r2) = true) ->
  fence_match acc (h_detect h) x = FOk l -> l <> [] ->
  In h (candidates r k old_r new_r).
Proof. exact candidates_complete. Qed.
Print Assumptions c05_candidates_complete.

Theorem c05_cross_hull : forall a c1 c2 r1 r2,
  within c1 r1 -> within c2 r2 ->
  (minx c1 <= maxx c1 /\ miny c1 <= maxy c1 /\ minx c2 <= maxx c2 /\ miny c2 <= maxy c2)%Z ->
  overlaps a (hull c1 c2) = true -> overlaps a (hull r1 r2) = true.
Proof. exact cross_hull. Qed.
Print Assumptions c05_cross_hull.

(* DEL / PDEL / expiry (a "del" write carries the deleted object and no previous one): a fence
   whose area the object was inside (hence overlapping rectangles) is a candidate and emits one
   "del"; DROP reaches exactly the fences of that key that detect "outside" (in particular every
   fence with default detection), each emitting one "drop". *)
Theorem c05_del_drop :
  (forall r k h a robj D x,
     reg_inv r -> In h (hooks r) -> h_key h = k -> h_area h = Some a -> overlaps a robj = true ->
     c_cmd x = CDel -> guard_fails x = false ->
     In h (candidates r k None (Some robj)) /\ fence_match true D x = FOk [FDel]) /\
  (forall r k h D x,
     reg_inv r -> c_cmd x = CDrop ->
     (In h (candidates r k None None) <-> In h (hooks r) /\ h_key h = k /\ detects (h_detect h) DOutside = true) /\
     fence_match true D x = FOk [FDrop]).
Proof.
  split.
  - intros r k h a robj D x Hi Hin Hk Ha Ho Hc Hg. split.
    + exact (del_candidate r k h a robj Hi Hin Hk Ha Ho).
    + exact (proj2 (proj2 (proj2 (fence_guards D x true))) eq_refl Hc Hg).
  - intros r k h D x Hi Hc. split.
    + exact (drop_candidates r k h Hi).
    + exact (proj1 (proj2 (proj2 (fence_guards D x true))) eq_refl Hc).
Qed.
Print Assumptions c05_del_drop.

(* What reaches the sink of hook h (the subscribers of its channel, or its webhook manager) for one
   write: h's own FenceMatch result if h is among the candidates, nothing otherwise - whatever the
   other candidates produce, in whatever order the candidate map is iterated (cl = any duplicate-free
   enumeration of it), through the separate stable sorts of channel and webhook messages. *)
Theorem c05_sink_delivery : forall r cl cf af h,
  reg_inv r -> NoDup (map h_name cl) -> (forall x, In x cl -> In x (hooks r)) -> In h (hooks r) ->
  (if h_chan h then channel_delivery cl cf af (h_name h) else webhook_delivery cl cf af (h_name h)) =
  if existsb (fun x => bytes_eqb (h_name x) (h_name h)) cl
  then msgs_of (fence_match (af h) (h_detect h) (cf h)) else [].
Proof. exact sink_delivery. Qed.
Print Assumptions c05_sink_delivery.

(* The SET / FSET results are identical for a webhook, a channel and a live connection with the
   same fence definition (key, DETECT, area, hence the same abstract case x and COMMANDS verdict acc
   for the write), in every reachable registry, whatever other hooks exist: all three receive
   msgs_of (fence_match acc D x) (the hook / meta / group fields are not part of fmsg).  Oracle
   hypotheses as in c05_candidates_complete. *)
Theorem c05_same_for_all_sinks : forall r cl cf af hw hc k D a x acc old_r new_r,
  reg_inv r ->
  NoDup (map h_name cl) -> (forall h, In h cl <-> In h (candidates r k old_r new_r)) ->
  In hw (hooks r) -> In hc (hooks r) -> h_chan hw = false -> h_chan hc = true ->
  h_key hw = k -> h_key hc = k -> h_detect hw = D -> h_detect hc = D ->
  h_area hw = Some a -> h_area hc = Some a ->
  cf hw = x -> cf hc = x -> af hw = acc -> af hc = acc ->
  is_move (c_cmd x) = true ->
  (sp_of (c_obj x) = true -> exists r2, new_r = Some r2 /\ overlaps a r2 = true) ->
  (sp_of (c_old x) = true -> exists r1, old_r = Some r1 /\ overlaps a r1 = true) ->
  (c_cross x = true -> is_some (c_old x) = true -> is_some (c_obj x) = true ->
     exists r1 r2, old_r = Some r1 /\ new_r = Some r2 /\ overlaps a (hull r1 r2) = true) ->
  webhook_delivery cl cf af (h_name hw) = msgs_of (fence_match acc D x) /\
  channel_delivery cl cf af (h_name hc) = msgs_of (fence_match acc D x) /\
  live_delivery k k acc D x = msgs_of (fence_match acc D x).
Proof. exact same_for_all_sinks. Qed.
Print Assumptions c05_same_for_all_sinks.

(* The one difference between the sinks, outside SET / FSET: hooks are gated by candidate selection,
   live connections are not.  For a delete of an object that is not a candidate reason for hook h
   (h does not detect "outside" and the object's rectangle misses h's area) the hook's sink gets
   nothing while a live connection with that definition gets one del.  The property only asks for a
   del when the object WAS inside the area, where both agree (c05_del_drop): an observation. *)
Theorem c05_del_gate_difference : forall r cl cf af h k x robj,
  reg_inv r -> NoDup (map h_name cl) -> (forall y, In y cl <-> In y (candidates r k None (Some robj))) ->
  In h (hooks r) -> h_key h = k -> cf h = x -> af h = true ->
  c_cmd x = CDel -> guard_fails x = false ->
  cand_cond h None (Some robj) = false ->
  (if h_chan h then channel_delivery cl cf af (h_name h) else webhook_delivery cl cf af (h_name h)) = [] /\
  live_delivery k k true (h_detect h) x = [FDel].
Proof. exact del_gate_difference. Qed.
Print Assumptions c05_del_gate_difference.

(* ---- non-vacuity ---- *)
Definition D_enter_cross : dset :=
  {| d_nil := false; d_inside := false; d_outside := false; d_enter := true; d_exit := false; d_cross := true |}.
Definition D_default : dset :=
  {| d_nil := true; d_inside := false; d_outside := false; d_enter := false; d_exit := false; d_cross := false |}.
Definition t_in := {| o_sp := true; o_flt := true |}.
Definition t_out := {| o_sp := false; o_flt := true |}.

(* outside -> inside under DETECT enter,cross: [enter]; outside -> outside crossing: [cross];
   default detection, inside -> outside: [exit; outside] *)
Example c05_rows :
  fence_match true D_enter_cross (move_case CSet (Some t_out) t_in false) = FOk [FM DEnter] /\
  fence_match true D_enter_cross (move_case CSet (Some t_out) t_out true) = FOk [FM DCross] /\
  fence_match true D_default (move_case CSet (Some t_in) t_out false) = FOk [FM DExit; FM DOutside].
Proof. vm_compute. auto. Qed.

(* a registry with a default fence, an inside-only fence and a cross fence on key "k"; a far-away
   move that crosses the third one's rectangle selects the default and the cross fence only *)
Definition hk (n : N) (D : dset) (a : rect) : hook :=
  {| h_name := [n]; h_chan := true; h_key := [107%N]; h_detect := D; h_area := Some a; h_expires := false |}.
Definition D_inside : dset :=
  {| d_nil := false; d_inside := true; d_outside := false; d_enter := false; d_exit := false; d_cross := false |}.
Definition sq (x y : Z) : rect := {| minx := x; miny := y; maxx := (x + 10)%Z; maxy := (y + 10)%Z |}.
Example c05_registry_example :
  let r := reg_run [RSet (hk 1 D_default (sq 0 0)) false; RSet (hk 2 D_inside (sq 100 100)) false;
                    RSet (hk 3 D_enter_cross (sq 200 200)) false; RSet (hk 4 D_inside (sq 0 0)) false;
                    RDel [4%N] true] in
  map h_name (candidates r [107%N] (Some (sq 150 150)) (Some (sq 260 260))) = [[1%N]; [3%N]].
Proof. vm_compute. reflexivity. Qed.

(* a channel, a webhook and another (channel) fence on the same area; an outside -> inside move:
   each of the first two sinks gets its own [enter; inside], untouched by the third fence's messages
   that the stable sort interleaves with them *)
Definition hw5 : hook := {| h_name := [5%N]; h_chan := false; h_key := [107%N]; h_detect := D_default; h_area := Some (sq 0 0); h_expires := false |}.
Example c05_sinks_example :
  let r := reg_run [RSet (hk 1 D_default (sq 0 0)) false; RSet hw5 false; RSet (hk 3 D_default (sq 0 0)) false] in
  let cl := [hk 3 D_default (sq 0 0); hw5; hk 1 D_default (sq 0 0)] in
  let cf := fun _ : hook => move_case CSet (Some t_out) t_in false in
  (forall h, In h cl <-> In h (candidates r [107%N] (Some (sq 50 50)) (Some (sq 5 5)))) /\
  fst (queue_hooks cl cf (fun _ => true)) =
    [([1%N], FM DEnter); ([3%N], FM DEnter); ([1%N], FM DInside); ([3%N], FM DInside)] /\
  channel_delivery cl cf (fun _ => true) [1%N] = [FM DEnter; FM DInside] /\
  webhook_delivery cl cf (fun _ => true) [5%N] = [FM DEnter; FM DInside].
Proof.
  split; [|vm_compute; auto].
  intro h. vm_compute. intuition.
Qed.
