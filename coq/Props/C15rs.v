(* C15, continued — the ROLE the gates consult: it cannot change between a gate's test and the
   handler, it is left only by the command that says so, and "caught up" means the leader's log was
   consumed. Only property theorems; every one is closed by a lemma of Proofs/RoleStateProofs.v and
   is about the tables t38x regenerated from /repo for this run (coq/Gen/RoleGates.v). *)
From Coq Require Import String List Bool ZArith.
From T38 Require Import Model.Tables Model.RoleTypes Gen.LockTable Gen.Dispatch Gen.ScriptTables Gen.Mutators
  Gen.RoleGates Model.Gate Model.RoleState Proofs.GateProofs Proofs.RoleStateProofs.
Import ListNotations.
Open Scope string_scope.

(* the regenerated statement orders describe the same arms as the regenerated arm records the other
   C15 theorems are about (same locks, same tests, same write flags, same refusals) *)
Theorem c15_step_tables_agree :
  steps_agree lock_table lock_table_steps lock_table_default_steps = true /\
  steps_agree script_rw script_rw_steps script_rw_default_steps = true /\
  steps_agree script_ro script_ro_steps script_ro_default_steps = true /\
  steps_agree script_na script_na_steps script_na_default_steps = true.
Proof. exact step_tables_agree. Qed.
Print Assumptions c15_step_tables_agree.

(* a command whose handler can modify the dataset, sent directly (or TIMEOUT-wrapped): whatever other
   connections do in between (READONLY yes, FOLLOW ..., at any point where this goroutine does not
   hold the server lock), the handler only ever runs at a moment when the server is a leader and not
   read-only: the two tests are made under the lock the handler runs under *)
Theorem c15_write_role_under_lock : forall c sched r r',
  changes c = true -> in_strs c dev_only = false ->
  run_arm (direct_steps c) false sched r = AHandler r' ->
  r_follower r' = false /\ r_readonly r' = false.
Proof. exact direct_write_role. Qed.
Print Assumptions c15_write_role_under_lock.

(* the same for tile38.call(c, ...) from every script command: the script command's own arm followed
   by the arm of its script table *)
Theorem c15_write_role_under_lock_scripts : forall outer c sched r r',
  In outer ["eval"; "evalsha"; "evalro"; "evalrosha"; "evalna"; "evalnasha"] -> changes_script c = true ->
  run_arm (script_steps outer c) false sched r = AHandler r' ->
  r_follower r' = false /\ r_readonly r' = false.
Proof. exact script_write_role. Qed.
Print Assumptions c15_write_role_under_lock_scripts.

(* a command whose handler hands out stored objects only ever runs while the server is a leader or a
   follower that has caught up at least once — directly and from every script command *)
Theorem c15_read_role_under_lock : forall c sched r r',
  reads_objects c = true -> in_strs c dev_only = false ->
  run_arm (direct_steps c) false sched r = AHandler r' ->
  r_follower r' = false \/ r_caughtup r' = true.
Proof. exact direct_read_role. Qed.
Print Assumptions c15_read_role_under_lock.

Theorem c15_read_role_under_lock_scripts : forall outer c sched r r',
  In outer ["eval"; "evalsha"; "evalro"; "evalrosha"; "evalna"; "evalnasha"] -> reads_objects_script c = true ->
  run_arm (script_steps outer c) false sched r = AHandler r' ->
  r_follower r' = false \/ r_caughtup r' = true.
Proof. exact script_read_role. Qed.
Print Assumptions c15_read_role_under_lock_scripts.

(* READONLY <a>, any argument string: read-only mode is switched off only by an argument that is
   "no" up to letter case; Config.setReadOnly has no other caller *)
Theorem c15_readonly_left_only_by_no : forall a ro,
  readonly_set_sites = ["Server.cmdREADONLY"] /\
  (snd (readonly_cmd a ro) = false -> ro = false \/ lower a = "no").
Proof. exact readonly_cmd_spec. Qed.
Print Assumptions c15_readonly_left_only_by_no.

(* ... so a read-only server stays read-only through every sequence of READONLY commands none of which
   says "no" (and then refuses every changing command: c15_follower_readonly, c15_write_role_under_lock) *)
Theorem c15_readonly_sticky : forall args,
  Forall (fun a => lower a <> "no") args -> readonly_after args true = true.
Proof. exact readonly_sticky. Qed.
Print Assumptions c15_readonly_sticky.

(* protected mode: starting from the default, through every sequence of CONFIG SET protected-mode v /
   CONFIG REWRITE / restart in which no v is "no" up to letter case, the test Server.isProtected makes
   on the stored value succeeds (the field has no other writer) ... *)
Theorem c15_protected_kept : forall es,
  Forall (fun e => match e with PSet v => lower v <> "no" | _ => True end) es ->
  protected_mode_writes = 2%nat /\
  mode_test protected_test (p_mode (prun es pstate0)) = true.
Proof. exact protected_kept. Qed.
Print Assumptions c15_protected_kept.

(* ... hence a server started without --protected-mode no, without -h <address> and without a
   password is protected after such a history (and refuses a non-loopback peer before its first
   read: c15_protected) *)
Theorem c15_protected_after : forall es,
  Forall (fun e => match e with PSet v => lower v <> "no" | _ => True end) es ->
  is_protected false false (p_mode (prun es pstate0)) false = true.
Proof.
  intros es H. unfold is_protected. rewrite (proj2 (protected_kept es H)). reflexivity.
Qed.
Print Assumptions c15_protected_after.

(* followStep: setCaughtUp(true) — the only way the caughtUpOnce bit consulted by the read gates
   gets set — is called only when the records of the leader's LOG consumed in this session reach the
   size the leader reported; messages the leader's publish queue writes onto the replication
   connection (not part of the log: hypothesis stream_wf) do not count *)
Theorem c15_caught_up_means_log_consumed : forall pos aofsize ms,
  stream_wf ms -> follow_session pos aofsize ms = true ->
  caughtup_true_calls = 2%nat /\ caughtup_flag_writers = ["Server.setCaughtUp"] /\
  (aofsize <= pos + logged_bytes ms)%Z.
Proof. exact caught_up_means_log_consumed. Qed.
Print Assumptions c15_caught_up_means_log_consumed.

(* non-vacuity *)
Example c15rs_nonvacuous :
  (* SET from EVALNA while another connection sends READONLY yes before the lock is taken: refused *)
  run_arm (script_steps "evalna" "set") false [nomove; mkMove (Some (false, true)) false] (mkRole false false true) = ARefused /\
  (* without interference the handler runs on a writable leader *)
  run_arm (script_steps "evalna" "set") false [] (mkRole false false true) = AHandler (mkRole false false true) /\
  (* READONLY: canonical arguments work, other spellings are invalid and change nothing *)
  readonly_cmd "yes" false = (RoOK, true) /\ readonly_cmd "no" true = (RoOK, false) /\
  readonly_cmd "YES" true = (RoInvalid, true) /\ readonly_after ["YES"; "yes"; "No"] true = true /\
  (* protected mode: Yes keeps it on, no switches it off *)
  mode_test protected_test (p_mode (prun [PSet "Yes"; PRewrite; PRestart] pstate0)) = true /\
  mode_test protected_test (p_mode (prun [PSet "no"] pstate0)) = false /\
  (* follow: 65 log bytes and 21000 bytes of PUBLISH do not reach aof_size 20000; 20000 log bytes do *)
  follow_session 0 20000 [mkFmsg "SET" 65 true; mkFmsg "PUBLISH" 21000 false] = false /\
  follow_session 0 20000 [mkFmsg "SET" 65 true; mkFmsg "publish" 21000 false; mkFmsg "SET" 19935 true] = true /\
  stream_wf [mkFmsg "SET" 65 true; mkFmsg "PUBLISH" 21000 false].
Proof.
  repeat split; try (vm_compute; reflexivity).
  unfold stream_wf. repeat (apply Forall_cons || apply Forall_nil); split;
    try (vm_compute; discriminate); intros H; try discriminate H; vm_compute; reflexivity.
Qed.
