(* C06 (continued) — errors of a streamed command.  followHandleCommand skips a record whose command returns an
   error commandErrIsFatal tolerates and carries on with the stream (still claiming, once the stream is consumed,
   to be a copy); any other error fails the attempt (the follower retries and reports not caught up meanwhile).
   A skipped record is harmless only if the leader's own execution of it would have met the same error, i.e. if the
   error depends on dataset + command only.  The tolerated set is read off the source (Gen/ReplayTol.v: commandErrIsFatal
   evaluated on every error sentinel; Gen/FollowSteps.v: followHandleCommand consults it).
   Only [Theorem name : statement. Proof. exact lemma. Qed.] here. *)
From Coq Require Import List Bool String.
From T38 Require Import Gen.ReplayTol Gen.FollowSteps Model.FollowTol Proofs.FollowTolProofs.
Import ListNotations.

(* ---- the tie to the source ---- *)
Theorem c06t_tolerated_from_source :
  tolerated_of_table replay_err_table = proved_tolerated /\ replay_err_other_fatal = true.
Proof. exact tolerated_transcribed. Qed.
Print Assumptions c06t_tolerated_from_source.

Theorem c06t_follower_consults_table : consults_table follow_handle_command = true.
Proof. exact follow_consults_table. Qed.
Print Assumptions c06t_follower_consults_table.

(* every error the source lets a follower skip depends on dataset + command only (errOOM, which depends on the
   follower's own memory state, is not among them) *)
Theorem c06t_tolerated_state_only :
  forall e, tol_of_table replay_err_table replay_err_other_fatal e = true -> state_only_name e = true.
Proof. exact source_tolerates_state_only. Qed.
Print Assumptions c06t_tolerated_state_only.

(* ---- what that buys ---- *)
(* for ANY command semantics [xapp] in which the state-only errors really are state-only: a follower that starts
   as a copy of its leader and handles the whole stream under the source's table ends as a copy, whatever its local
   conditions (memory pressure, ...) were at each record *)
Theorem c06t_stream_copy :
  forall (st rec loc : Type) (xapp : loc -> rec -> st -> (st * bool) + string),
  (forall l1 l2 r s v w, xapp l1 r s = inl v -> xapp l2 r s = inl w -> v = w) ->
  (forall l1 l2 r s v e, xapp l1 r s = inl v -> xapp l2 r s = inr e -> state_only_name e = false) ->
  forall ts s sL sF,
  lrun st rec loc xapp ts s = Some sL ->
  fstream st rec loc xapp (tol_of_table replay_err_table replay_err_other_fatal) ts s = inl sF ->
  sF = sL.
Proof.
  intros st rec loc xapp H1 H2. eapply tol_sound; eauto. exact source_tolerates_state_only.
Qed.
Print Assumptions c06t_stream_copy.

(* and the record at which the follower's own condition gets in the way fails the attempt (it is not skipped) *)
Theorem c06t_local_error_fails_attempt :
  forall (st rec loc : Type) (xapp : loc -> rec -> st -> (st * bool) + string),
  (forall l1 l2 r s v e, xapp l1 r s = inl v -> xapp l2 r s = inr e -> state_only_name e = false) ->
  forall ll lf r s v e, xapp ll r s = inl v -> xapp lf r s = inr e ->
  fdeliver st rec loc xapp (tol_of_table replay_err_table replay_err_other_fatal) lf r s = Failed st e.
Proof.
  intros st rec loc xapp H2. eapply local_error_fails; eauto. exact source_tolerates_state_only.
Qed.
Print Assumptions c06t_local_error_fails_attempt.

(* the hypotheses are satisfiable by a semantics with a local error: the toy instance of Model/FollowTol.v *)
Example c06t_toy_hypotheses :
  (forall l1 l2 r s v w, toy_xapp l1 r s = inl v -> toy_xapp l2 r s = inl w -> v = w) /\
  (forall l1 l2 r s v e, toy_xapp l1 r s = inl v -> toy_xapp l2 r s = inr e -> state_only_name e = false).
Proof.
  split.
  - intros l1 l2 [n|n] s v w; cbn.
    + destruct l1, l2; try discriminate. congruence.
    + destruct (existsb (Nat.eqb n) s); try discriminate. congruence.
  - intros l1 l2 [n|n] s v e; cbn.
    + destruct l1, l2; try discriminate. intros _ H. inversion H. reflexivity.
    + destruct (existsb (Nat.eqb n) s); discriminate.
Qed.

(* ---- the table with errOOM tolerated: refuted ---- *)
(* the leader acknowledges SET 1, SET 2, DEL 1; the follower (a copy, [] ) is over its maxmemory during the two
   SETs: both are skipped, the DEL is skipped too (errIDNotFound is tolerated - the cooperating entry), the stream
   is handled completely (inl: connected, caught up) and the follower holds nothing while the leader holds [2].
   With the source's table the same stream fails the attempt at the first record. *)
Theorem c06t_oom_tolerated_refuted :
  let table := ("errOOM", "OOM command not allowed when used memory > 'maxmemory'", false)%string ::
               filter (fun r : string * string * bool => negb (String.eqb (fst (fst r)) "errOOM"%string)) replay_err_table in
  let ts := [(false, true, TSet 1); (false, true, TSet 2); (false, false, TDel 1)] in
  table_state_only table = false /\
  lrun (list nat) toy_rec bool toy_xapp ts [] = Some [2] /\
  fstream (list nat) toy_rec bool toy_xapp (tol_of_table table replay_err_other_fatal) ts [] = inl [] /\
  fstream (list nat) toy_rec bool toy_xapp (tol_of_table replay_err_table replay_err_other_fatal) ts [] = inr ("errOOM"%string, []).
Proof. vm_compute. repeat split. Qed.
Print Assumptions c06t_oom_tolerated_refuted.
