(* C19 — counters agree with the retrievable dataset: the hook / channel registry.
   num_hooks (SERVER, SERVER EXT, /metrics) is s.hooks.Len(); Props/C19.v (c19_hook_totals) proves
   |HOOKS *| + |CHANS *| = size of the registry for the registry model of C05 (Model/HookReg.v, hooks
   with a boolean deadline flag). Here the same for the life-cycle model Model/HookLife.v, whose
   listings (cmdHooks incl. forEachHookByPattern's range shortcut and kind filter) and registry the
   harness compares with the server (harness/internal/hooklife, RunC19: SERVER num_hooks = size of the
   model's registry = length of the model's two listings, along random programs). *)
From Coq Require Import List ZArith.
From T38 Require Import Base.Bytes Base.SMap Model.Glob Model.HookLife Proofs.HookLifeProofs.
Import ListNotations.

(* HOOKS * and CHANS * (whatever the clock, whatever the spelling of the command word) are listings,
   and together they have exactly as many items as the registry has entries *)
Theorem c19hk_list_total : forall now s x y,
  match cmd_hooks now s [x; [STAR]] false, cmd_hooks now s [y; [STAR]] true with
  | (_, RList lh, _), (_, RList lc, _) => (length lh + length lc = length (hooks s))%nat
  | _, _ => False
  end.
Proof. exact list_total. Qed.
Print Assumptions c19hk_list_total.

(* ... and the registry holds each name once, after every history of commands and sweeper passes *)
Theorem c19hk_names_unique : forall O p, NoDup (keys (hooks (prun O p empty))).
Proof.
  intros O p. pose proof (inv_sorted _ (reachable_inv O p)) as H. unfold msorted, sorted_keys in H.
  induction H as [|a l Hl IH Ha]; constructor; [|exact IH].
  intros Hin. rewrite Forall_forall in Ha. pose proof (Ha a Hin) as Hlt. rewrite ltb_irrefl in Hlt. discriminate.
Qed.
Print Assumptions c19hk_names_unique.

(* a listing does not change the registry and is never logged *)
Theorem c19hk_listing_pure : forall now s args c,
  fst (fst (cmd_hooks now s args c)) = s /\ snd (cmd_hooks now s args c) = false.
Proof.
  intros now s args c. split; [apply inv_cmd_hooks|].
  unfold cmd_hooks. destruct (tl args) as [|pat [|z r]]; try reflexivity. destruct (isnil pat); reflexivity.
Qed.
Print Assumptions c19hk_listing_pure.
