(* C09 — AOFSHRINK and the write buffer (continuation of Props/C09.v).
   Only property theorems, each closed by a lemma of Proofs/ShrinkBufProofs.v, and closed examples. *)
From Coq Require Import String.
From Coq Require Import List NArith ZArith Bool.
From T38 Require Import Base.Bytes Base.SMap Model.Shrink Model.ShrinkBuf Proofs.ShrinkProofs Proofs.ShrinkBufProofs.
Import ListNotations.

(* The statements of the final section of aofshrink(), as t38x reads them from the source on every
   run (Gen/ShrinkFinal.v), are the operations of the model in the model's order — flush s.aofbuf
   into the old file FIRST, then append the shrinklog, sync, close both, rename, rename, reopen,
   remove — every crash point sits after exactly cp_index operations, and there is no statement the
   model does not know. *)
Theorem c09_final_section_transcribed :
  final_ops_src = final_ops /\ final_marks_src = final_marks.
Proof. exact final_section_transcribed. Qed.
Print Assumptions c09_final_section_transcribed.

(* The swap, for every state the rewrite can be in when its scan is over (all schedules, RENAME
   included): afterwards the write buffer is empty and the open log is exactly snapshot ++ shrinklog;
   the epilogue has cleared flag and shrinklog. *)
Theorem c09_swap_log_exact :
  forall mk mi g b, r_shrinking (b_run b) = true -> sh_done (r_sh (b_run b)) = true -> b_reset b = false ->
    let b' := bstep mk mi final_ops g b BFinal in
    b_buf b' = [] /\ b_file b' = newfile (b_run b) /\ b_run b' = end_rewrite (b_run b) /\ b_reset b' = false.
Proof. exact swap_log_exact. Qed.
Print Assumptions c09_swap_log_exact.

(* The same for the operations read from the source: what a restart after the swap replays is
   snapshot ++ shrinklog and nothing else. *)
Theorem c09_swap_log_exact_src :
  forall mk mi b, r_shrinking (b_run b) = true -> sh_done (r_sh (b_run b)) = true -> b_reset b = false ->
    let b' := bstep mk mi final_ops_src final_guard_src b BFinal in
    blog b' = newfile (b_run b) /\ b_buf b' = [].
Proof. exact swap_log_exact_src. Qed.
Print Assumptions c09_swap_log_exact_src.

(* A follower that dropped its dataset to resync with its leader while the rewrite was running
   (followReset: nothing of it reaches the shrinklog): the final section gives up, whatever its
   operations are; the open log stays the one the resync is writing. *)
Theorem c09_reset_aborts :
  forall mk mi ops b, r_shrinking (b_run b) = true -> sh_done (r_sh (b_run b)) = true -> b_reset b = true ->
    let b' := bstep mk mi ops true b BFinal in
    b_file b' = b_file b /\ b_buf b' = b_buf b /\ b_run b' = end_rewrite (b_run b) /\ b_reset b' = false.
Proof. exact reset_aborts. Qed.
Print Assumptions c09_reset_aborts.

(* Buffer at the crash points: the directory is the one of c09_crash_points; past the first operation
   the buffer is empty; the file that is moved aside holds everything accepted before the swap, once. *)
Theorem c09_crash_buffer :
  forall fi c, fst (crash_atb fi c) = crash_at fi c /\
    (c <> CP_final_locked -> snd (crash_atb fi c) = []) /\
    d_bak (fst (crash_atb fi CP_after_rename_bak)) = Some (f_live fi ++ f_pend fi).
Proof. exact crash_buffer. Qed.
Print Assumptions c09_crash_buffer.

(* Every schedule of writers (no RENAME: see c09_rename_refuted), rewrite steps, AOFSHRINK requests,
   flushes, follower start-overs (BReset) and final sections — any number of rewrites, commands buffered across the swap or not —
   keeps "open log ++ write buffer replays to the live dataset": a restart (after the clean
   shutdown's flush) recovers the live dataset, before, during and after a rewrite.  Partial: the
   alphabet of c09_concurrent_partial. *)
Theorem c09_log_tracks_live_partial :
  forall mk mi s0 f0 sched,
    wf s0 -> forallb nr_cmd f0 = true -> same_data (replay f0 []) s0 -> no_rename_b sched = true ->
    let b := brun mk mi final_ops true sched (binit s0 f0) in
    same_data (replay (blog b) []) (r_live (b_run b)).
Proof. exact log_tracks_live. Qed.
Print Assumptions c09_log_tracks_live_partial.

Theorem c09_log_tracks_live_src_partial :
  forall mk mi s0 f0 sched,
    wf s0 -> forallb nr_cmd f0 = true -> same_data (replay f0 []) s0 -> no_rename_b sched = true ->
    let b := brun mk mi final_ops_src final_guard_src sched (binit s0 f0) in
    same_data (replay (blog b) []) (r_live (b_run b)).
Proof. exact log_tracks_live_src. Qed.
Print Assumptions c09_log_tracks_live_src_partial.

(* The final section without its flush: RENAME a c; SET a 1 y are accepted after the scan is over and
   are still buffered at the swap.  With the flush the log replays to the live dataset; without it
   the two commands follow snapshot ++ shrinklog in the new file, are replayed a second time, and
   c/1 comes back as y instead of x.  (The harness plays this schedule on the server first.) *)
Theorem c09_swap_without_flush_refuted :
  exists s0 f0 sched, wf s0 /\ replay f0 [] = s0 /\
    (let b := brun maxkeys maxids final_ops true sched (binit s0 f0) in
     replay (blog b) [] = r_live (b_run b)) /\
    (let b := brun maxkeys maxids final_ops_noflush true sched (binit s0 f0) in
     exists k i, lookup k i (replay (blog b) []) <> lookup k i (r_live (b_run b))).
Proof. exact swap_without_flush_refuted. Qed.
Print Assumptions c09_swap_without_flush_refuted.

(* The final section without the guard: a server with its own data becomes a follower while its
   rewrite is parked before the final section (BReset, then the leader's SET b 1 y); with the guard
   the log replays to the live dataset, without it the stale snapshot is swapped in and a/1 is back. *)
Theorem c09_reset_without_guard_refuted :
  exists s0 f0 sched, wf s0 /\ replay f0 [] = s0 /\ no_rename_b sched = true /\
    (let b := brun maxkeys maxids final_ops true sched (binit s0 f0) in
     replay (blog b) [] = r_live (b_run b) /\ r_live (b_run b) <> []) /\
    (let b := brun maxkeys maxids final_ops false sched (binit s0 f0) in
     exists k i, lookup k i (replay (blog b) []) <> lookup k i (r_live (b_run b))).
Proof. exact reset_without_guard_refuted. Qed.
Print Assumptions c09_reset_without_guard_refuted.

(* ex_data loaded from its own log, the concurrent schedule ex_sched with a flush after every writer,
   two writers whose commands are in the buffer at the final section, a second complete rewrite: the
   hypotheses of c09_log_tracks_live_partial hold; the buffer holds two commands right before the
   first final section and none right after; the log is shorter after each rewrite *)
Example c09_ex_buffer :
  wfb ex_data = true /\ forallb nr_cmd ex_f0 = true /\ replay ex_f0 [] = ex_data /\
  no_rename_b ex_bsched = true /\
  let pre := firstn (length ex_bsched - 44) ex_bsched in
  let b1 := brun maxkeys maxids final_ops true (firstn (length pre - 1) pre) (binit ex_data ex_f0) in
  let b2 := brun maxkeys maxids final_ops true pre (binit ex_data ex_f0) in
  let b3 := brun maxkeys maxids final_ops true ex_bsched (binit ex_data ex_f0) in
  length (b_buf b1) = 2%nat /\ r_shrinking (b_run b1) = true /\
  b_buf b2 = [] /\ r_shrinking (b_run b2) = false /\ b_file b2 = newfile (b_run b1) /\
  Nat.ltb (length (b_file b2)) (length (blog b1)) = true /\
  b_buf b3 = [] /\ r_shrinking (b_run b3) = false /\ replay (blog b3) [] = r_live (b_run b3) /\
  r_live (b_run b3) <> r_live (b_run b1).
Proof. vm_compute. repeat split; try reflexivity; discriminate. Qed.
