(* C08 (continuation) — "a crash at any time loses only unacknowledged commands" across an AOFSHRINK:
   a write acknowledged while a rewrite runs is in the old file and in s.shrinklog, and the
   shrinklog is what carries it into the file the server keeps (C09: new file = snapshot ++
   shrinklog).  So nothing but the rewrite's own start and end may reset the shrinklog.  Statements
   are C09's model (Model/Shrink.v); the tie to the source is the statement list of aofshrink()'s
   entry section and epilogue that t38x regenerates on every run (Gen/ShrinkEntry.v).
   Only theorems, each closed by a lemma of Proofs/ShrinkEntryProofs.v / Proofs/ShrinkProofs.v. *)
From Coq Require Import String List Bool.
From T38 Require Import Model.Shrink Gen.ShrinkEntry Gen.ShrinkFinal Model.ShrinkEntry Proofs.ShrinkProofs Proofs.ShrinkEntryProofs.
Import ListNotations.
Open Scope string_scope.

(* the entry section of aofshrink(), as regenerated from the source, is the model's `request` on the
   flag and the log: guard first, then `s.shrinking = true; s.shrinklog = nil` *)
Theorem c08_shrink_entry_transcribed : forall r,
  exec_section true entry_section r =
  Some (if r_shrinking r then r else mkRun (r_live r) (r_sh r) [] true).
Proof. exact entry_transcribed. Qed.
Print Assumptions c08_shrink_entry_transcribed.

(* a refused AOFSHRINK (one that arrives while a rewrite is running, or on a server without a log
   file) changes nothing: the running rewrite keeps its shrinklog *)
Theorem c08_refused_shrink_changes_nothing : forall r,
  r_shrinking r = true -> exec_section true entry_section r = Some r.
Proof. exact refused_request_changes_nothing. Qed.
Print Assumptions c08_refused_shrink_changes_nothing.

Theorem c08_shrink_without_aof_changes_nothing : forall r, exec_section false entry_section r = Some r.
Proof. exact request_without_aof_changes_nothing. Qed.
Print Assumptions c08_shrink_without_aof_changes_nothing.

(* the same in the schedule model of C09 *)
Theorem c08_request_is_noop : forall mk mi r, r_shrinking r = true -> do_ev mk mi r Req = r.
Proof. exact request_is_noop. Qed.
Print Assumptions c08_request_is_noop.

(* any schedule of writer commands, rewrite steps and further AOFSHRINK requests: the shrinklog at
   the end is the one of the same schedule without the requests — no acknowledged command is dropped
   from what the final section appends to the new file *)
Theorem c08_requests_keep_shrinklog : forall mk mi sched r,
  r_shrinking r = true ->
  r_log (run_sched mk mi (filter (fun e => match e with Req => false | _ => true end) sched) r) =
  r_log (run_sched mk mi sched r) /\
  r_shrinking (run_sched mk mi sched r) = true.
Proof. exact requests_keep_log. Qed.
Print Assumptions c08_requests_keep_shrinklog.

(* the deferred epilogue is the model's end_rewrite, and no other statement of the package assigns
   s.shrinking / s.shrinklog (writeAOF appends) — except a reset of the log by a function that also
   raises the abort flag s.shrinkrst, on which the final section gives up before it appends the log
   (the follower's followReset of proposed_fixes/C09-follow-reset-aborts-shrink.diff; Model/ShrinkEntry.v
   write_ok) *)
Theorem c08_shrink_epilogue_transcribed : forall b r, exec_section b epilogue_section r = Some (end_rewrite r).
Proof. exact epilogue_transcribed. Qed.
Print Assumptions c08_shrink_epilogue_transcribed.

Theorem c08_shrink_state_writes_accounted :
  forallb (write_ok shrink_state_writes final_section) shrink_state_writes = true /\
  forallb (fun w => in_list w shrink_state_writes) expected_state_writes = true.
Proof. exact state_writes_accounted. Qed.
Print Assumptions c08_shrink_state_writes_accounted.

(* the reset moved in front of the guard (a recognised other order) is refuted: the refused request
   empties the running rewrite's log *)
Example c08_reset_before_guard_refuted :
  forall l sh c,
    exec_section true ["s.mu.Lock()"; "s.shrinklog = nil"; "if s.aof == nil || s.shrinking {s.mu.Unlock(); return}";
                       "s.shrinking = true"; "s.mu.Unlock()"] (mkRun l sh [c] true)
    = Some (mkRun l sh [] true).
Proof. intros. vm_compute. reflexivity. Qed.
