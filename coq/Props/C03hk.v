(* C03 — restart reproduces the acknowledged state: HOOKS AND CHANNELS.
   The theorems of Props/C03.v / C03ks.v for the registry of hooks and channels: the life-cycle
   model Model/HookLife.v (cmdSetHook with META / EX / the Equals path / the name clash, cmdDelHook,
   cmdPDelHook, cmdHooks, FLUSHDB, backgroundExpireHooks), whose every step is compared with the
   server by harness/internal/hooklife (replies, listings, the bytes of the AOF, restart, kill,
   cut log, sweeper records). Only theorems, each closed by a lemma of Proofs/HookLifeProofs.v.

   [exec O now s args] = (registry', reply, updated): [updated] is "writeAOF appended args".
   A program is a list of [PCmd now args] (a client command at ITS OWN clock reading) and
   [PSweep now] (a pass of backgroundExpireHooks); [plog] is what the program appends to the log
   (commands with updated = true, and the DELHOOK / DELCHAN records of the sweeper); [replay_at O clk]
   applies log records in order, record i at clock [clk i] — ANY clock function: the restart happens
   later, and records are applied faster than they were issued.  [er] erases deadline VALUES (keeps
   "has a deadline"): a deadline is re-armed relative to the replay, so values cannot be kept.
   [Inv]: names sorted, unique and non-empty, hookExpires sorted and exact; it holds for the empty
   registry and is preserved by everything (c03hk_inv), so the theorems hold along every run. *)
From Coq Require Import String.
From Coq Require Import List ZArith.
From T38 Require Import Base.Bytes Base.SMap Model.Spec Model.HookLife Proofs.HookLifeProofs.
From T38 Require Model.Resp Model.Aof Proofs.AofProofs Model.Replay Model.Expire.
Import ListNotations.
Local Open Scope Z_scope.

(* every registry a program reaches from the empty one satisfies the invariant *)
Theorem c03hk_inv : forall O p, Inv (prun O p empty).
Proof. exact reachable_inv. Qed.
Print Assumptions c03hk_inv.

(* a command that is not appended to the log (an error, a listing, the "Equals: nothing to do" path
   of SETHOOK / SETCHAN, a DEL / PDEL that hits nothing) leaves the registry AND hookExpires exactly
   as they were — every oracle, every clock, every command line *)
Theorem c03hk_unlogged_unchanged : forall O now s args s' r,
  Inv s -> exec O now s args = (s', r, false) -> s' = s /\ logrec args false = [].
Proof. intros O now s args s' r Hi H. split; [exact (noupd_exec O now s args s' r Hi H) | reflexivity]. Qed.
Print Assumptions c03hk_unlogged_unchanged.

(* restart at ANY clock: the log of any program — commands at their own clock readings, sweeper
   passes in between — replayed from the empty registry reproduces the live registry with name,
   kind, key, endpoints, fence command and metas of every hook and channel, and every deadline kept
   as a deadline *)
Theorem c03hk_restart_deadline_kept : forall O clk p,
  er (replay_at O clk 0 (plog O p empty) empty) = er (prun O p empty).
Proof. intros O clk p. apply hk_restart_deadline_kept; [exact inv_empty | exact inv_empty | reflexivity]. Qed.
Print Assumptions c03hk_restart_deadline_kept.

(* ... from any two well-formed registries that agree up to deadline values *)
Theorem c03hk_restart_deadline_kept_from : forall O clk p s0 s0',
  Inv s0 -> Inv s0' -> er s0 = er s0' ->
  er (replay_at O clk 0 (plog O p s0) s0') = er (prun O p s0).
Proof. exact hk_restart_deadline_kept. Qed.
Print Assumptions c03hk_restart_deadline_kept_from.

(* what "up to deadline values" keeps *)
Theorem c03hk_deadline_meaning : forall s s', er s = er s' ->
  keys (hooks s) = keys (hooks s') /\
  forall n,
    match get n (hooks s), get n (hooks s') with
    | Some h, Some h' =>
        h_name h = h_name h' /\ h_chan h = h_chan h' /\ h_key h = h_key h' /\ h_eps h = h_eps h' /\
        h_args h = h_args h' /\ h_metas h = h_metas h' /\ (h_ex h = None <-> h_ex h' = None)
    | None, None => True
    | _, _ => False
    end.
Proof. exact er_meaning. Qed.
Print Assumptions c03hk_deadline_meaning.

(* kill at any instant: the file is a byte prefix q of the log. Start-up (the loader of C04) at any
   clock recovers, up to deadline values, the registry after a PREFIX p1 of the program — sweeper
   passes written out as the DELHOOK / DELCHAN commands they execute ([flat]), so a cut inside a pass
   keeps the victims deleted so far —, truncates the file to the end of p1's log, and p1 holds every
   record whose bytes were wholly written *)
Theorem c03hk_crash_prefix : forall O clk p s0 q t,
  Inv s0 -> Forall AofProofs.cmd_ok (plog O p s0) -> (q ++ t)%list = Resp.encs (plog O p s0) ->
  exists p1 p2 s1, flat O p s0 = (p1 ++ p2)%list /\
    recover_at O clk q s0 = Some (s1, Resp.len (Resp.encs (clog O p1 s0))) /\
    er s1 = er (crun O p1 s0) /\ Inv s1 /\
    Resp.len (Resp.encs (clog O p1 s0)) <= Resp.len q /\
    (forall m, (m <= length (plog O p s0))%nat ->
               Resp.len (Resp.encs (firstn m (plog O p s0))) <= Resp.len q ->
               (m <= length (clog O p1 s0))%nat).
Proof. exact hk_crash_prefix. Qed.
Print Assumptions c03hk_crash_prefix.

(* [flat] is the same program: same final registry, same log *)
Theorem c03hk_flat_same : forall O p s, prun O p s = crun O (flat O p s) s /\ plog O p s = clog O (flat O p s) s.
Proof. intros O p s. split; [apply prun_flat | apply plog_flat]. Qed.
Print Assumptions c03hk_flat_same.

(* expiry records replay: the DELHOOK / DELCHAN records of a sweeper pass, applied at any clock to a
   registry that agrees up to deadline values, delete exactly what the pass deleted *)
Theorem c03hk_expiry_replays : forall O clk now s s',
  Inv s -> Inv s' -> er s = er s' ->
  er (replay_at O clk 0 (snd (sweep now s)) s') = er (fst (sweep now s)).
Proof. exact expiry_replays. Qed.
Print Assumptions c03hk_expiry_replays.

(* the instance of Props/C03.v (Model/Replay.v) with a frozen clock: exact equality, index included *)
Theorem c03hk_replay_equiv : forall O now p s0, Inv s0 ->
  Replay.replay state (hk_exec O now) (Replay.logof state (hk_exec O now) p s0) s0 = Replay.run state (hk_exec O now) p s0.
Proof. intros O now p s0. apply hkf_replay_equiv. Qed.
Print Assumptions c03hk_replay_equiv.

Theorem c03hk_crash_prefix_frozen : forall O now p s0 q t,
  Inv s0 ->
  Forall AofProofs.cmd_ok (Replay.logof state (hk_exec O now) p s0) ->
  (q ++ t)%list = Resp.encs (Replay.logof state (hk_exec O now) p s0) ->
  exists p1 p2, p = (p1 ++ p2)%list /\
    Replay.recover state (hk_exec O now) q s0 =
      Some (Replay.run state (hk_exec O now) p1 s0, Resp.len (Resp.encs (Replay.logof state (hk_exec O now) p1 s0))) /\
    Resp.len (Resp.encs (Replay.logof state (hk_exec O now) p1 s0)) <= Resp.len q /\
    (forall m, (m <= length (Replay.logof state (hk_exec O now) p s0))%nat ->
               Resp.len (Resp.encs (firstn m (Replay.logof state (hk_exec O now) p s0))) <= Resp.len q ->
               (m <= length (Replay.logof state (hk_exec O now) p1 s0))%nat).
Proof. exact hkf_crash_prefix. Qed.
Print Assumptions c03hk_crash_prefix_frozen.


(* RENAME / RENAMENX and DROP never touch the registry (crud.go: cmdRENAME is refused before it changes
   anything when a hook or channel watches either key — hooks are reported first —, cmdDROPop only
   disconnects groups).  The guard, as a function of the registry: *)
Theorem c03hk_rename_guard : forall s key newkey,
  let touches h := orb (bytes_eqb (h_key h) key) (bytes_eqb (h_key h) newkey) in
  match rename_guard s key newkey with
  | None => forall h, In h (vals (hooks s)) -> touches h = false
  | Some e => (e = err_has_hooks /\ exists h, In h (vals (hooks s)) /\ touches h = true /\ h_chan h = false) \/
              (e = err_has_chans /\ (exists h, In h (vals (hooks s)) /\ touches h = true /\ h_chan h = true) /\
               forall h, In h (vals (hooks s)) -> touches h = true -> h_chan h = true)
  end.
Proof. exact rename_guard_spec. Qed.
Print Assumptions c03hk_rename_guard.

(* ---------- non-vacuity ---------- *)
Local Open Scope string_scope.
Local Open Scope list_scope.
Local Open Scope Z_scope.
(* toy oracle: every url valid, EX <token> = (length of the token) seconds, fence key = first token *)
Definition toyO : oracle :=
  mkOracle (fun b => b) (fun _ => true) (fun b => Some (Z.of_nat (length b) * 1000000000))
           (fun c r => match r with k :: _ => FOk k | [] => FErr (bs "no key") end).
Definition w (s : String.string) : bytes := bs s.
Definition cC := [w "SETCHAN"; w "c"; w "EX"; w "12345"; w "META"; w "b"; w "2"; w "NEARBY"; w "fleet"; w "FENCE"].
Definition cH := [w "SETHOOK"; w "h"; w "http://x,http://y"; w "WITHIN"; w "zoo"; w "FENCE"].
Definition cP := [w "SETCHAN"; w "p"; w "NEARBY"; w "fleet"; w "FENCE"].
(* c declared at 10 (5 s), re-declared at 30 (new deadline: logged), and at 30 again (Equals: not
   logged); a listing; h; p twice (the second is the Equals path); a sweep at 4 s (nothing), c once more, a sweep at
   9.5 s (DELCHAN c is logged); the name clash SETHOOK c is refused *)
Definition progX : list pstep :=
  [PCmd 10 cC; PCmd 30 cC; PCmd 30 cC; PCmd 40 [w "CHANS"; w "*"]; PCmd 50 cH; PCmd 60 cP; PCmd 70 cP;
   PCmd 80 [w "SETHOOK"; w "c"; w "http://x"; w "NEARBY"; w "fleet"; w "FENCE"];
   PSweep 4000000000; PCmd 4000000001 cC; PSweep 9500000000].

Example c03hk_nonvacuous :
  plog toyO progX empty = [cC; cC; cH; cP; cC; [c_delchan; w "c"]] /\
  keys (hooks (prun toyO progX empty)) = [w "h"; w "p"] /\
  (* replayed a day later, 1 ns per record: same registry modulo deadline values ... *)
  er (replay_at toyO (fun i => 86400000000000 + Z.of_nat i) 0 (plog toyO progX empty) empty) = er (prun toyO progX empty) /\
  (* ... although a cut after the 2nd record shows different deadline values live and replayed *)
  hexp (prun toyO [PCmd 10 cC; PCmd 30 cC] empty) = [(5000000030, w "c")] /\
  hexp (replay_at toyO (fun i => 86400000000000 + Z.of_nat i) 0 [cC; cC] empty) = [(86405000000001, w "c")] /\
  (* a file cut inside the 3rd record recovers the first two *)
  exists sz, recover_at toyO (fun _ => 7) (firstn (length (Resp.encs [cC; cC]) + 9) (Resp.encs (plog toyO progX empty))) empty
             = Some (replay_at toyO (fun _ => 7) 0 [cC; cC] empty, sz) /\ sz = Resp.len (Resp.encs [cC; cC]).
Proof.
  split; [vm_compute; reflexivity|]. split; [vm_compute; reflexivity|]. split; [vm_compute; reflexivity|].
  split; [vm_compute; reflexivity|]. split; [vm_compute; reflexivity|].
  eexists. split; vm_compute; reflexivity.
Qed.
