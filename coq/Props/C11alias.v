(* C11, continuation — the pages a client receives are its own, also while other clients page.
   Tables: coq/Gen/PkgVars.v (t38x/pkgvars.go, regenerated from /repo on every run).
   Model: Model/PoolAlias.v. Proofs: Proofs/PoolAliasProofs.v. *)
From Coq Require Import String List Bool NArith.
From T38 Require Import Model.Tables Model.PoolAlias Gen.Dispatch Gen.PkgVars Proofs.PoolAliasProofs.
Import ListNotations.
Open Scope string_scope.

(* Table theorem. Every function of package server that hands memory back to a sync.Pool — directly
   or through a function of the package — lets nothing that may still reference that memory leave:
   not as a result (the reply value handed back to handleInputCommand, which serialises it after
   the handler has returned), not stored into memory of its caller, a global, a goroutine. *)
Theorem c11_no_reply_aliases_pooled_memory : forall r, In r PkgVars.pool_puts -> pr_escapes r = [].
Proof. exact pool_puts_no_escape. Qed.
Print Assumptions c11_no_reply_aliases_pooled_memory.

(* ... in particular for every command handler of the dispatch table *)
Theorem c11_handler_replies_not_pooled : forall h, In h dispatch ->
  kind_of PkgVars.pool_puts ("Server." ++ h_fn h) <> KAlias.
Proof. exact handlers_not_alias. Qed.
Print Assumptions c11_handler_replies_not_pooled.

(* What it buys (machine of Model/PoolAlias.v, handler kinds read off the generated table): under
   every interleaving of any clients' handlers and of the deferred serialisations, every reply put
   on the wire is the page the client's own request computed — other clients' requests do not show
   in it. With Props/C11.v (c11_pages: the pages of one client concatenate to the unlimited reply)
   this is C11 for a client that is not alone. *)
Theorem c11_concurrent_replies_are_own_pages : forall evs,
  Forall own_page (sent (run (kind_of PkgVars.pool_puts) evs)).
Proof. exact own_pages_server. Qed.
Print Assumptions c11_concurrent_replies_are_own_pages.

(* the same for any table without an aliasing row (not only today's) *)
Theorem c11_own_pages_any_table : forall t, alias_residue t = [] ->
  forall evs, Forall own_page (sent (run (kind_of t) evs)).
Proof. exact own_pages. Qed.
Print Assumptions c11_own_pages_any_table.

(* The condition is needed: with a handler whose reply refers to a buffer it has given back
   (row "return"), client 0 is sent client 1's page [2;2] instead of its own [1]. *)
Theorem c11_pooled_reply_refuted :
  exists t evs, alias_residue t <> [] /\
    sent (run (kind_of t) evs) = [(0, ([2%N; 2%N], [1%N]))] /\ ~ Forall own_page (sent (run (kind_of t) evs)).
Proof. exact alias_refuted. Qed.
Print Assumptions c11_pooled_reply_refuted.

(* Package-level variables of package server (state shared by all connections that is not reachable
   from the Server value, hence not in C07's shared_writes): every statement outside init that
   writes one, writes through it, calls a mutating method on it or takes its address does so under
   a package-level mutex or on a value that synchronises itself (sync / atomic). *)
Theorem c11_pkg_var_writes_guarded : forall w, In w PkgVars.pkg_var_writes ->
  wr_guard w <> "" /\ exists ty, In (wr_var w, ty) PkgVars.pkg_vars.
Proof. exact writes_guarded_all. Qed.
Print Assumptions c11_pkg_var_writes_guarded.

(* the hypotheses are satisfiable by non-trivial data: today's table has rows, and the machine
   delivers something *)
Example c11_alias_table_nonempty : PkgVars.pool_puts <> [].
Proof. vm_compute. discriminate. Qed.
Example c11_alias_machine_runs :
  sent (run (kind_of PkgVars.pool_puts) [Run 0 "Server.cmdScan" [1%N]; Run 1 "Server.cmdScan" [2%N]; Ser 0; Ser 1])
  = [(1, ([2%N], [2%N])); (0, ([1%N], [1%N]))].
Proof. vm_compute. reflexivity. Qed.
