(* C18 — Scripts are atomic, honour their read-only variants, and are sandboxed.
   Table theorems over coq/Gen (regenerated from /repo on every run). *)
From Coq Require Import String List Bool.
From T38 Require Import Model.Tables Gen.LockTable Gen.Dispatch Gen.ScriptTables Gen.Mutators Gen.LuaAllow
  Model.Gate Model.Sandbox Proofs.GateProofs Proofs.SandboxProofs.
Import ListNotations.
Open Scope string_scope.

(* EVAL / EVALSHA: exclusive server lock for the whole handler, no lock call anywhere inside it or in
   the sub-command path, every sub-command arm lock-free: the script is one critical section *)
Theorem c18_eval_atomic :
  a_lock (arm_of lock_table "eval") = LExcl /\ a_lock (arm_of lock_table "evalsha") = LExcl /\
  fn_takes_lock "cmdEvalUnified" = false /\ fn_takes_lock "luaTile38AtomicRW" = false /\
  forallb (fun a => match a_lock a with LNone => true | _ => false end) (t_default script_rw :: t_arms script_rw) = true /\
  assoc script_variant "eval" = Some script_rw /\ assoc script_variant "evalsha" = Some script_rw.
Proof. exact eval_is_one_critical_section. Qed.
Print Assumptions c18_eval_atomic.

(* and every mutation a sub-command of EVAL can perform is covered by that exclusive lock *)
Theorem c18_eval_sub_commands_locked :
  forallb (fun c => script_cmd_lock_sound script_rw LExcl c) (map h_cmd dispatch_script) = true.
Proof. exact eval_sub_commands_lock_sound. Qed.
Print Assumptions c18_eval_sub_commands_locked.

(* EVALNA: no outer lock; each sub-command takes the exclusive (writes) or shared (reads) lock itself *)
Theorem c18_evalna_per_call :
  a_lock (arm_of lock_table "evalna") = LNone /\ a_lock (arm_of lock_table "evalnasha") = LNone /\
  assoc script_variant "evalna" = Some script_na /\ assoc script_variant "evalnasha" = Some script_na /\
  forallb (fun c => script_cmd_lock_sound script_na LNone c) (map h_cmd dispatch_script) = true.
Proof. exact evalna_per_call. Qed.
Print Assumptions c18_evalna_per_call.

(* every changing sub-command a read-write variant lets through is appended to the log *)
Theorem c18_script_writes_logged :
  forall t, In t [script_rw; script_na] -> forall c, script_logged_check t c = true.
Proof. exact script_writes_logged. Qed.
Print Assumptions c18_script_writes_logged.

(* EVALRO / EVALROSHA: shared lock, and no sub-command that can modify the dataset ever runs *)
Theorem c18_ro_never_mutates : forall c e fn l w,
  script_gate script_ro c e = SRun l w fn -> changes_script c = false /\ w = false.
Proof. exact ro_never_mutates_gate. Qed.
Print Assumptions c18_ro_never_mutates.

Theorem c18_evalro_shared :
  a_lock (arm_of lock_table "evalro") = LShared /\ a_lock (arm_of lock_table "evalrosha") = LShared /\
  assoc script_variant "evalro" = Some script_ro /\ assoc script_variant "evalrosha" = Some script_ro /\
  fn_takes_lock "luaTile38AtomicRO" = false.
Proof. exact evalro_shared_and_pure. Qed.
Print Assumptions c18_evalro_shared.

(* sandbox: what lStatePool.New opens and registers is inside the documented allow-list and
   disjoint from everything that reaches the file system, the process or the network *)
Theorem c18_sandbox :
  lua_skip_open_libs = true /\ lua_newindex_locked = true /\
  incl lua_names documented_allow /\ (forall n, In n lua_names -> ~ In n dangerous_names) /\
  incl lua_module_libs allowed_libs.
Proof. exact sandbox_ok. Qed.
Print Assumptions c18_sandbox.

Example c18_nonvacuous :
  changes_script "set" = true /\ script_gate script_ro "get" (mkEnv false false true false false) = SRun LNone false "cmdGET" /\
  script_gate script_ro "set" (mkEnv false false true false false) = SErrReadOnly /\
  script_gate script_na "set" (mkEnv false false true false false) = SRun LExcl true "cmdSET".
Proof. vm_compute. repeat split. Qed.

(* ======================================================================================== *)
(* Executable model of a script run over the concurrency model (Model/Script.v), for EVERY handler
   semantics that satisfies the two stated hypotheses, every set of per-connection programs (plain
   commands and scripts of all six variants; a script is a call STRATEGY: the next call may depend on
   what earlier calls returned) and every schedule of the micro-steps. Locks, arms, refusals and
   logging flags are read from the regenerated Gen/LockTable.v, Gen/ScriptTables.v, Gen/Dispatch.v. *)
From Coq Require Import Arith.
From T38 Require Import Base.Bytes Base.SMap Model.Resp Model.Aof Proofs.AofProofs.
From T38 Require Import Model.Tables Model.Replay Model.Script Model.ScriptKs Proofs.ScriptProofs Proofs.ScriptKsProofs.
Open Scope list_scope.
Open Scope nat_scope.

(* (d) + the script part of C03: at every instant - in the middle of a script, after a script was
   aborted by a failing tile38.call, between the calls of an EVALNA script - the dataset is what
   start-up computes from the log *)
Theorem c18s_state_is_replay_of_log :
  forall (S val herr : Type) (cname : cmd -> string) (handler : string -> S -> cmd -> S * (val + herr) * bool)
         (e : env) (s0 : S), noupd_ok handler -> pure_ok handler ->
  forall (progs : nat -> list (req val herr)) (sched : list nat),
  let g := srun cname handler e (sinit s0 progs) sched in
  shared g = replay_log cname handler (aof g) s0.
Proof. exact state_is_replay_of_log. Qed.
Print Assumptions c18s_state_is_replay_of_log.

(* the script part of C03, crash form: a kill at any instant leaves a byte prefix q of the file; start-up
   (the transcribed loadAOF of C04) recovers exactly a dataset the live server was in - the one at the
   instant k of the schedule at which the last wholly written record had just been appended - and
   cuts the file there. (That instant can lie between two calls of one EVAL: the lock makes a script
   indivisible for other connections, not for a kill; see the notes.) *)
Theorem c18s_crash_recovers_a_live_state :
  forall (S val herr : Type) (cname : cmd -> string) (handler : string -> S -> cmd -> S * (val + herr) * bool)
         (e : env) (s0 : S), noupd_ok handler -> pure_ok handler ->
  forall (progs : nat -> list (req val herr)) (sched : list nat) (q t : bytes),
  let g := srun cname handler e (sinit s0 progs) sched in
  Forall cmd_ok (aof g) -> q ++ t = encs (aof g) ->
  exists k, k <= length sched /\
    let gk := srun cname handler e (sinit s0 progs) (firstn k sched) in
    aof gk = firstn (inside (aof g) (len q)) (aof g) /\
    recover S (exec_top cname handler) q s0 = Some (shared gk, len (encs (aof gk))).
Proof. exact crash_recovers_a_live_state. Qed.
Print Assumptions c18s_crash_recovers_a_live_state.

(* (d) the log is exactly the calls that succeeded and updated, once each, in the order they were
   made (per request: in call order); a logged call ran under the exclusive lock; a call that was
   not logged left the dataset as it was *)
Theorem c18s_log_is_the_successful_writes :
  forall (S val herr : Type) (cname : cmd -> string) (handler : string -> S -> cmd -> S * (val + herr) * bool)
         (e : env) (s0 : S), noupd_ok handler -> pure_ok handler ->
  forall (progs : nat -> list (req val herr)) (sched : list nat),
  let g := srun cname handler e (sinit s0 progs) sched in
  log g = recs_of (hist g) /\
  (forall t r, filter (own_rec t r) (log g) = recs_of (filter (own t r) (hist g))) /\
  (forall ev c seen after r upd logged, In ev (hist g) -> e_kind ev = KExec c seen after r upd logged ->
     (logged = true -> e_held ev = LExcl /\ is_ok r = true /\ upd = true) /\ (logged = false -> after = seen)).
Proof. exact log_is_the_successful_writes. Qed.
Print Assumptions c18s_log_is_the_successful_writes.

(* the lock a request starts under is the one Gen/LockTable.v lists for its command word *)
Theorem c18s_start_lock_from_table :
  forall (S val herr : Type) (cname : cmd -> string) (handler : string -> S -> cmd -> S * (val + herr) * bool)
         (e : env) (s0 : S), noupd_ok handler -> pure_ok handler ->
  forall (progs : nat -> list (req val herr)) (sched : list nat),
  let g := srun cname handler e (sinit s0 progs) sched in
  forall ev l, In ev (hist g) -> e_kind ev = KStart l ->
  l = a_lock (arm_of lock_table (e_name ev)) /\ e_held ev = l.
Proof. exact start_lock_from_table. Qed.
Print Assumptions c18s_start_lock_from_table.

(* (a) atomic variants, in the history: everything that happens between the first and the last step
   of one EVAL / EVALSHA request belongs to that request, except steps of threads that hold no server
   lock at all (the Lua code of an EVALNA script between two calls, PING ...: they neither read nor
   write the dataset). No other command is applied, no other locked command is answered in between. *)
Theorem c18s_eval_indivisible :
  forall (S val herr : Type) (cname : cmd -> string) (handler : string -> S -> cmd -> S * (val + herr) * bool)
         (e : env) (s0 : S), noupd_ok handler -> pure_ok handler ->
  forall (progs : nat -> list (req val herr)) (sched : list nat),
  let g := srun cname handler e (sinit s0 progs) sched in
  forall ev l, In ev (hist g) -> e_kind ev = KStart l -> In (e_name ev) ["eval"; "evalsha"] ->
  contig (e_tid ev) (e_rid ev) (hist g).
Proof. exact eval_contiguous. Qed.
Print Assumptions c18s_eval_indivisible.

(* ... and the same for every request that starts under the exclusive lock (C07's multi-object
   commands PDEL, DROP, RENAME, FLUSHDB are one section too) *)
Theorem c18s_exclusive_request_indivisible :
  forall (S val herr : Type) (cname : cmd -> string) (handler : string -> S -> cmd -> S * (val + herr) * bool)
         (e : env) (s0 : S), noupd_ok handler -> pure_ok handler ->
  forall (progs : nat -> list (req val herr)) (sched : list nat),
  let g := srun cname handler e (sinit s0 progs) sched in
  forall t r, marked t r (hist g) -> contig t r (hist g).
Proof. exact exclusive_request_contiguous. Qed.
Print Assumptions c18s_exclusive_request_indivisible.

(* (a) in the log: the records of such a request are one contiguous block (in call order by the
   theorem above); each of its own steps sees the log before the block plus its own records so far;
   every step of another thread that holds a lock sees all of the block or none of it *)
Theorem c18s_indivisible_in_the_log :
  forall (S val herr : Type) (cname : cmd -> string) (handler : string -> S -> cmd -> S * (val + herr) * bool)
         (e : env) (s0 : S), noupd_ok handler -> pure_ok handler ->
  forall (progs : nat -> list (req val herr)) (sched : list nat),
  let g := srun cname handler e (sinit s0 progs) sched in
  forall t r, contig t r (hist g) ->
  exists lpre lmid lpost,
    log g = lpre ++ lmid ++ lpost /\
    Forall (fun x => own_rec t r x = false) lpre /\ Forall (fun x => own_rec t r x = true) lmid /\
    Forall (fun x => own_rec t r x = false) lpost /\
    forall ev, In ev (hist g) ->
      (own t r ev = true -> length lpre <= e_pos ev <= length lpre + length lmid) /\
      (own t r ev = false -> free ev = false -> e_pos ev <= length lpre \/ length lpre + length lmid <= e_pos ev).
Proof. exact contiguous_in_the_log. Qed.
Print Assumptions c18s_indivisible_in_the_log.

(* every state any handler observes (in a script or not) is the state after a complete prefix of
   the log: e_pos records of it *)
Theorem c18s_observations_are_log_prefixes :
  forall (S val herr : Type) (cname : cmd -> string) (handler : string -> S -> cmd -> S * (val + herr) * bool)
         (e : env) (s0 : S), noupd_ok handler -> pure_ok handler ->
  forall (progs : nat -> list (req val herr)) (sched : list nat),
  let g := srun cname handler e (sinit s0 progs) sched in
  forall ev c seen after r upd logged, In ev (hist g) -> e_kind ev = KExec c seen after r upd logged ->
  e_pos ev <= length (log g) /\ seen = replay_log cname handler (map r_cmd (firstn (e_pos ev) (log g))) s0.
Proof. exact observations_are_log_prefixes. Qed.
Print Assumptions c18s_observations_are_log_prefixes.

(* (b) EVALRO / EVALROSHA (every command that starts a script under a table without a logging arm):
   no step of such a request changes the dataset or the log ... *)
Theorem c18s_evalro_step_changes_nothing :
  forall (S val herr : Type) (cname : cmd -> string) (handler : string -> S -> cmd -> S * (val + herr) * bool)
         (e : env) (s0 : S), noupd_ok handler -> pure_ok handler ->
  forall (progs : nat -> list (req val herr)) (sched : list nat),
  let g := srun cname handler e (sinit s0 progs) sched in
  forall u, t_pc (th g u) <> PIdle -> ro_name (cname (t_cmd (th g u))) = true ->
  shared (sstep cname handler e g u) = shared g /\ log (sstep cname handler e g u) = log g.
Proof. exact ro_step_changes_nothing. Qed.
Print Assumptions c18s_evalro_step_changes_nothing.

(* ... and nothing in the history of such a request is a record or a change *)
Theorem c18s_evalro_logs_nothing :
  forall (S val herr : Type) (cname : cmd -> string) (handler : string -> S -> cmd -> S * (val + herr) * bool)
         (e : env) (s0 : S), noupd_ok handler -> pure_ok handler ->
  forall (progs : nat -> list (req val herr)) (sched : list nat),
  let g := srun cname handler e (sinit s0 progs) sched in
  forall ev, In ev (hist g) -> ro_name (e_name ev) = true ->
  ev_recs ev = [] /\
  forall c seen after r upd logged, e_kind ev = KExec c seen after r upd logged -> logged = false /\ after = seen.
Proof. exact ro_request_logs_nothing. Qed.
Print Assumptions c18s_evalro_logs_nothing.

Theorem c18s_evalro_names : ro_name "evalro" = true /\ ro_name "evalrosha" = true /\ ro_name "eval" = false /\ ro_name "evalna" = false.
Proof. exact evalro_names. Qed.
Print Assumptions c18s_evalro_names.

(* (a)/(c) as steps: while a thread holds the exclusive lock, a step of any other thread leaves the
   dataset, the log and the lock as they are and happens holding no lock ... *)
Theorem c18s_exclusive_holder_excludes :
  forall (S val herr : Type) (cname : cmd -> string) (handler : string -> S -> cmd -> S * (val + herr) * bool)
         (e : env) (s0 : S), noupd_ok handler -> pure_ok handler ->
  forall (progs : nat -> list (req val herr)) (sched : list nat),
  let g := srun cname handler e (sinit s0 progs) sched in
  forall t u, wr g = Some t -> u <> t ->
  let g' := sstep cname handler e g u in
  shared g' = shared g /\ log g' = log g /\ wr g' = wr g /\ rd g' = rd g /\
  (hist g' = hist g \/
   exists ev, hist g' = hist g ++ [ev] /\ e_tid ev = u /\ free ev = true /\ ev_recs ev = []).
Proof. exact exclusive_holder_excludes. Qed.
Print Assumptions c18s_exclusive_holder_excludes.

(* ... a thread holds it from the lock switch to the end of the request when the request's arm says
   so (EVAL, EVALSHA: the whole script) ... *)
Theorem c18s_eval_holds_exclusive_throughout :
  forall (S val herr : Type) (cname : cmd -> string) (handler : string -> S -> cmd -> S * (val + herr) * bool)
         (e : env) (s0 : S), noupd_ok handler -> pure_ok handler ->
  forall (progs : nat -> list (req val herr)) (sched : list nat),
  let g := srun cname handler e (sinit s0 progs) sched in
  forall t, t_pc (th g t) <> PIdle -> outer_lock cname (t_cmd (th g t)) = LExcl -> wr g = Some t.
Proof. exact inside_exclusive_request. Qed.
Print Assumptions c18s_eval_holds_exclusive_throughout.

(* (c) ... and an EVALNA script holds it during each write call and only then: other commands
   interleave between its calls, never inside one *)
Theorem c18s_evalna_call_exclusive :
  forall (S val herr : Type) (cname : cmd -> string) (handler : string -> S -> cmd -> S * (val + herr) * bool)
         (e : env) (s0 : S), noupd_ok handler -> pure_ok handler ->
  forall (progs : nat -> list (req val herr)) (sched : list nat),
  let g := srun cname handler e (sinit s0 progs) sched in
  forall t, innerh (th g t) = LExcl -> wr g = Some t.
Proof. exact inside_exclusive_call. Qed.
Print Assumptions c18s_evalna_call_exclusive.

Theorem c18s_variant_locks_from_tables :
  forallb (fun v => starts_script v && lockk_eqb (a_lock (arm_of lock_table v)) LExcl) ["eval"; "evalsha"] = true /\
  forallb (fun v => starts_script v && lockk_eqb (a_lock (arm_of lock_table v)) LNone &&
                    match assoc script_variant v with
                    | Some t => forallb (fun a => implb (a_write a) (lockk_eqb (a_lock a) LExcl)) (t_default t :: t_arms t)
                    | None => false end) ["evalna"; "evalnasha"] = true.
Proof. exact (conj eval_takes_excl evalna_takes_none). Qed.
Print Assumptions c18s_variant_locks_from_tables.

(* the hypotheses are satisfiable: the instance the driver executes (Model/ScriptKs.v) *)
Theorem c18s_hypotheses_hold_for_the_driver_instance : noupd_ok khandler /\ pure_ok khandler.
Proof. exact (conj ks_noupd ks_pure). Qed.
Print Assumptions c18s_hypotheses_hold_for_the_driver_instance.

(* ---- Examples: concrete programs and schedules on the driver instance ---- *)
Definition bsl (l : list string) : cmd := map bytes_of_string l.
Definition kreq (words : list string) (p : prog kval kerr) : req kval kerr := mkReq (bsl words) p.
Definition set_a1 := bsl ["set"; "k"; "a"; "string"; "1"].
Definition set_b1 := bsl ["set"; "k"; "b"; "string"; "1"].
Definition SET_a2 := bsl ["SET"; "k"; "a"; "STRING"; "2"].
Definition two_sets : prog kval kerr := Call false set_a1 (fun _ => Call false set_b1 (fun _ => Ret VOk)).
(* connection 0 runs the script under the given command word, connection 1 a plain SET on the same id *)
Definition progs2 (word : string) (t : nat) : list (req kval kerr) :=
  match t with
  | 0 => [kreq [word; "<lua>"; "0"] two_sets]
  | 1 => [mkReq SET_a2 (Ret VNil)]
  | _ => []
  end.

(* (c) EVALNA: the other connection's SET lands BETWEEN the two calls of the script ... *)
Example c18s_evalna_interleaves_between_calls :
  let g := krun (kinit [] (progs2 "EVALNA")) [0;0;0;0;0; 1;1;1; 0;0;0; 0;0] in
  aof g = [set_a1; SET_a2; set_b1] /\
  map (fun x => (r_tid x, r_rid x)) (log g) = [(0, 0); (1, 0); (0, 0)] /\
  wr g = None /\ shared g = kreplay (aof g) [].
Proof. vm_compute. repeat split. Qed.

(* ... but with the very same programs under EVAL the other connection is stuck at its lock switch
   for as long as the script runs (its three scheduled steps do nothing), and lands after it *)
Example c18s_eval_cannot_be_interleaved :
  let g6 := krun (kinit [] (progs2 "EVAL")) [0;0;0; 1;1;1] in
  let g := krun g6 [0;0;0; 1;1;1] in
  aof g6 = [set_a1] /\ wr g6 = Some 0 /\ filter (fun ev => Nat.eqb (e_tid ev) 1) (hist g6) = [] /\
  aof g = [set_a1; set_b1; SET_a2] /\ shared g = kreplay (aof g) [].
Proof. vm_compute. repeat split. Qed.

(* a call that fails in the middle: with tile38.call the script is aborted, the request is answered
   with the error, what the earlier call wrote stays applied AND logged (no roll-back) ... *)
Definition rename_missing := bsl ["rename"; "nokey"; "x"].
Definition fail_midway (prot : bool) : prog kval kerr :=
  Call false set_a1 (fun _ => Call prot rename_missing (fun _ => Call false set_b1 (fun _ => Ret VOk))).
Definition answers (g : gstate kstate kval kerr) : list (reply kval kerr) :=
  flat_map (fun ev => match e_kind ev with KAns r => [r] | _ => [] end) (hist g).

Example c18s_call_error_aborts_but_keeps_earlier_writes :
  let g := krun (kinit [] (fun t => match t with 0 => [kreq ["EVAL"; "<lua>"; "0"] (fail_midway false)] | _ => [] end))
                [0;0;0;0;0;0;0;0] in
  aof g = [set_a1] /\ answers g = [inr (CHandler EKeyNotFound)] /\
  shared g = kreplay (aof g) [] /\ get (bytes_of_string "k") (shared g) = Some [(bytes_of_string "a", bytes_of_string "1")].
Proof. vm_compute. repeat split. Qed.

(* ... with tile38.pcall the error is a value and the script goes on *)
Example c18s_pcall_error_is_a_value :
  let g := krun (kinit [] (fun t => match t with 0 => [kreq ["EVALSHA"; "<sha>"; "0"] (fail_midway true)] | _ => [] end))
                [0;0;0;0;0;0;0;0] in
  aof g = [set_a1; set_b1] /\ answers g = [inl VOk] /\ shared g = kreplay (aof g) [].
Proof. vm_compute. repeat split. Qed.

(* (b) EVALRO refuses the write with `read only` (pcall: the script continues and reads), logs nothing *)
Definition get_a := bsl ["get"; "k"; "a"].
Example c18s_evalro_refuses_writes :
  let g := krun (kinit [(bytes_of_string "k", [(bytes_of_string "a", bytes_of_string "0")])]
                  (fun t => match t with
                            | 0 => [kreq ["EVALRO"; "<lua>"; "0"]
                                      (Call true set_a1 (fun r1 => Call false get_a (fun r2 =>
                                         Ret (VArr [match r1 with inr CReadOnly => VInt 1 | _ => VInt 0 end;
                                                    match r2 with inl v => v | _ => VNil end]))))]
                            | _ => [] end)) [0;0;0;0;0;0] in
  aof g = [] /\ answers g = [inl (VArr [VInt 1; VBulk (bytes_of_string "0")])] /\
  shared g = [(bytes_of_string "k", [(bytes_of_string "a", bytes_of_string "0")])].
Proof. vm_compute. repeat split. Qed.

(* what the indivisibility theorem does NOT exclude, and rightly so: a step that holds no lock - here
   the reply of an EVALNA script whose Lua code returns - can fall between two calls of an EVAL *)
Example c18s_lock_free_steps_may_fall_inside_an_eval :
  let g := krun (kinit [] (fun t => match t with
                                    | 0 => [kreq ["EVAL"; "<lua>"; "0"] two_sets]
                                    | 1 => [kreq ["EVALNA"; "<lua>"; "0"] (Ret VOk)]
                                    | _ => [] end)) [1;1; 0;0;0; 1; 0;0;0] in
  map (fun ev => (e_tid ev, free ev)) (hist g) =
    [(1, true); (1, true); (0, false); (0, false); (0, false); (1, true); (0, false); (0, false); (0, false)] /\
  aof g = [set_a1; set_b1].
Proof. vm_compute. repeat split. Qed.

(* ======================================================================================== *)
(* The interpreter pool and the per-interpreter eval mode (Model/LuaPool.v). tile38.call chooses its
   path by the mode registered for the running interpreter; WHEREEVAL filters and SCRIPT LOAD take
   interpreters from the same pool and must find none. Which pool user registers a mode and whether it
   removes it on every way out is read from Gen/LuaPool.v (regenerated from cmdEvalUnified,
   cmdScriptLoad, parseSearchScanBaseTokens and every other function of the package on every run). *)
From T38 Require Import Gen.LuaPool Model.LuaPool Proofs.LuaPoolProofs.

(* for EVERY history of Get / Store / tile38.call / exit / Prune operations of any number of concurrent
   requests - two interpreters out at once and returned in either order, exits before the Store, pool
   growth - no idle interpreter carries an eval mode *)
Theorem c18p_idle_interpreters_have_no_mode :
  forall (n : nat) (ops : list op) (x : nat),
  In x (saved (src_run (pinit n) ops)) -> reg_get (reg (src_run (pinit n) ops)) x = None.
Proof. exact source_idle_interpreters_have_no_mode. Qed.
Print Assumptions c18p_idle_interpreters_have_no_mode.

(* ... so a tile38.call made from an interpreter whose user has no Store statement (a WHEREEVAL filter,
   SCRIPT LOAD) or has not reached it finds no mode and is refused by luaTile38Call, and a script past
   its Store is routed by its OWN command word, never by one an earlier request left behind. (This is
   what Model/Script.v assumes when it looks the variant up under the request's own command word.) *)
Theorem c18p_calls_are_routed_by_own_mode :
  forall (n : nat) (ops : list op) (c : lcall),
  In c (calls (src_run (pinit n) ops)) ->
  (fst (user_flags (c_fn c)) = false -> route (c_found c) = None) /\
  (c_stored c = true -> c_found c = Some (c_mode c)) /\
  (c_stored c = false -> route (c_found c) = None).
Proof. exact source_calls_are_routed_by_own_mode. Qed.
Print Assumptions c18p_calls_are_routed_by_own_mode.

(* the same for any registry discipline in which whoever registers also removes *)
Theorem c18p_pool_discipline_suffices :
  forall (fl : string -> bool * bool), (forall fn, fst (fl fn) = true -> snd (fl fn) = true) ->
  forall (n : nat) (ops : list op),
  (forall x, In x (saved (prun fl (pinit n) ops)) -> reg_get (reg (prun fl (pinit n) ops)) x = None) /\
  (forall c, In c (calls (prun fl (pinit n) ops)) ->
     if c_stored c then c_found c = Some (c_mode c) else c_found c = None).
Proof.
  exact (fun fl d n ops => conj (idle_interpreters_have_no_mode fl d n ops) (calls_find_own_mode_or_none fl d n ops)).
Qed.
Print Assumptions c18p_pool_discipline_suffices.

(* only cmdEvalUnified registers a mode; the WHEREEVAL parser and SCRIPT LOAD are users of the pool and
   do not; an interpreter without a mode is refused *)
Theorem c18p_only_eval_registers_a_mode :
  evalcmd_store_fns = ["Server.cmdEvalUnified"] /\
  forallb (fun pu => implb (fst (fst (snd pu))) (String.eqb (fst pu) "Server.cmdEvalUnified")) pool_users = true /\
  forallb (fun fn => negb (fst (user_flags fn))) ["Server.parseSearchScanBaseTokens"; "Server.cmdScriptLoad"] = true /\
  existsb (fun pu => String.eqb (fst pu) "Server.parseSearchScanBaseTokens") pool_users = true /\
  route None = None.
Proof. exact (conj (proj1 only_eval_registers) (conj (proj1 (proj2 only_eval_registers)) (conj (proj1 (proj2 (proj2 only_eval_registers))) (conj (proj2 (proj2 (proj2 only_eval_registers))) no_mode_is_refused)))). Qed.
Print Assumptions c18p_only_eval_registers_a_mode.

(* the history that needs the discipline: an EVAL, a SCAN with two WHEREEVAL filters (closed in the order
   they were taken: the two top interpreters swap), another EVAL, then an EVALRO whose script runs a SCAN
   with a WHEREEVAL filter that calls tile38.call *)
Definition evalfn := "Server.cmdEvalUnified".
Definition filterfn := "Server.parseSearchScanBaseTokens".
Definition swap_history : list op :=
  [OGet 0 evalfn "eval"; OStore 0; OCall 0; OExit 0;
   OGet 1 filterfn "scan"; OGet 2 filterfn "scan"; OExit 1; OExit 2;
   OGet 3 evalfn "eval"; OStore 3; OExit 3;
   OGet 4 evalfn "evalro"; OStore 4; OCall 4; OGet 5 filterfn "scan"; OCall 5].

Example c18p_filter_call_refused_after_swap :
  map (fun c => (c_user c, c_found c)) (calls (src_run (pinit 5) swap_history)) =
    [(0, Some "eval"); (4, Some "evalro"); (5, None)] /\
  saved (src_run (pinit 5) (swap_history ++ [OExit 5; OExit 4])) = [0; 1; 2; 4; 3].
Proof. vm_compute. split; reflexivity. Qed.

(* what the hypothesis is for: if cmdEvalUnified registered its mode without removing it, the filter
   of this very history would land on the interpreter the second EVAL stamped and write through the
   read-write path - inside an EVALRO *)
Definition flags_without_delete (fn : string) : bool * bool :=
  if String.eqb fn evalfn then (true, false) else (false, false).
Example c18p_without_the_delete_the_filter_writes :
  map (fun c => (c_user c, c_found c)) (calls (prun flags_without_delete (pinit 5) swap_history)) =
    [(0, Some "eval"); (4, Some "evalro"); (5, Some "eval")] /\
  route (Some "eval") = Some script_rw.
Proof. vm_compute. split; reflexivity. Qed.

(* ======================================================================================== *)
(* The reply path (Model/ScriptFlush.v): the script model's log is a buffer until netServe flushes it.
   Micro-steps of all connections (Model/Script.v), reply writes and background flushes in any order;
   the condition in front of the pre-reply flush is read from Gen/ReplyFlush.v (both reply blocks of
   netServe), as is the fact that writeAOF raises the flag for every caller. *)
From T38 Require Import Gen.ReplyFlush Model.ScriptFlush Proofs.ScriptFlushProofs.

(* a reply that went out acknowledges the first n requests of connection u, and the file held fl
   records at that moment: every record any of those requests put in the log - a plain write's one
   record, the records an EVAL / EVALSHA / EVALNA script logged call by call - is among those fl, and
   the file never shrinks. So a kill at any instant after the reply leaves them in the file
   (c18s_crash_recovers_a_live_state then recovers a dataset that contains them). *)
Theorem c18f_reply_sent_implies_records_in_file :
  forall (S val herr : Type) (cname : cmd -> string) (handler : string -> S -> cmd -> S * (val + herr) * bool)
         (e : env) (s0 : S), noupd_ok handler -> pure_ok handler ->
  forall (progs : nat -> list (req val herr)) (ops : list fop) (u n fl : nat),
  let f := frun cname handler e (finit s0 progs) ops in
  In (u, (n, fl)) (f_sends f) ->
  fl <= f_file f <= length (log (f_g f)) /\
  forall i x, nth_error (log (f_g f)) i = Some x -> r_tid x = u -> r_rid x < n -> i < fl.
Proof. exact reply_sent_implies_records_in_file. Qed.
Print Assumptions c18f_reply_sent_implies_records_in_file.

Theorem c18f_source_flushes_on_the_global_flag :
  reply_flush_on_global_flag = true /\ flag_raised_in_writeaof = true.
Proof. exact source_reply_flush. Qed.
Print Assumptions c18f_source_flushes_on_the_global_flag.

(* an EVAL with two writes: at the moment its reply goes out both records are in the file; before the
   reply (the script is done, netServe has not written yet) nothing need be *)
Example c18f_eval_reply_after_flush :
  let p := fun t => match t with 0 => [kreq ["EVAL"; "<lua>"; "0"] two_sets] | _ => [] end in
  let before := frun kcname khandler leader (finit [] p) (map FStep [0;0;0;0;0;0]) in
  let after := fstep kcname khandler leader before (FReply 0) in
  (length (log (f_g before)), f_file before, f_dirty before, f_sends before) = (2, 0, true, []) /\
  (f_file after, f_dirty after, f_sends after) = (2, false, [(0, (1, 2))]).
Proof. vm_compute. split; reflexivity. Qed.

(* ======================================================================================== *)
(* What borrowers leave in a pooled interpreter's global table (Model/LuaGlobals.v over Gen/LuaGlobals.v:
   every luaSetRawGlobals site of the package, with how each global is removed again). *)
From T38 Require Import Gen.LuaGlobals Model.LuaGlobals Proofs.LuaGlobalsProofs.

(* for EVERY history of borrow / invoke / return operations of any number of borrowers - invocations that end
   normally or by an early return (a WHEREEVAL filter that raised an error), several interpreters out at once,
   the Lua code of every invocation assigning whatever global names it likes (the __newindex guard lets
   through exactly Gen.LuaGlobals.newindex_passthrough) - an interpreter in the pool has no global beyond
   the ones lStatePool.New registered: no KEYS / ARGV / EVAL_CMD / DEADLINE of an earlier script, no ID /
   FIELDS / PROPERTIES of somebody's scanned object, nothing a script created *)
Theorem c18g_idle_interpreters_have_no_extra_globals :
  forall (n : nat) (ops : list gop) (x : nat),
  In x (g_idle (grun (ginit n) ops)) -> extras_of (g_extra (grun (ginit n) ops)) x = [].
Proof. exact idle_interpreters_have_no_extra_globals. Qed.
Print Assumptions c18g_idle_interpreters_have_no_extra_globals.

(* ... and its global names are EXACTLY those (Gen/LuaAllow.v; c18_sandbox places them inside the documented
   allow-list) as long as no script sets one of them to nil *)
Theorem c18g_idle_interpreters_have_allowlist_globals_partial :
  forall (n : nat) (ops : list gop) (x : nat), no_deletes ops ->
  In x (g_idle (grun (ginit n) ops)) -> globals_of (grun (ginit n) ops) x = base_globals.
Proof. exact idle_interpreters_have_allowlist_globals_partial. Qed.
Print Assumptions c18g_idle_interpreters_have_allowlist_globals_partial.

(* FINDING (open, C18-existing-global-overwritten): without that hypothesis it is false. An assignment to a
   name that exists never reaches the __newindex guard: `EVAL "tostring = nil return 1" 0` returns its
   interpreter to the pool without tostring, for every later script of every client (and `tile38.x = ARGV[1]`
   keeps a call's data in a table the next client can read). Reproduced on the real server by the harness. *)
Theorem c18g_idle_interpreters_have_allowlist_globals_refuted :
  exists n ops x, In x (g_idle (grun (ginit n) ops)) /\ globals_of (grun (ginit n) ops) x <> base_globals.
Proof. exact idle_interpreters_have_allowlist_globals_refuted. Qed.
Print Assumptions c18g_idle_interpreters_have_allowlist_globals_refuted.

(* the source: every global a function sets on a borrowed interpreter, and every name the guard would let a
   script create in a function that runs Lua code, is removed by a deferred statement of that function or -
   for the WHEREEVAL borrower - by the Close() that puts the interpreter back; and the guard refuses every name *)
Theorem c18g_every_global_is_removed_on_every_way_out :
  forallb entry_ok global_sets = true /\ passthrough_ok = true /\ newindex_passthrough = [].
Proof. exact (conj (proj1 source_globals_discipline) (conj (proj2 source_globals_discipline) source_guard_refuses_every_name)). Qed.
Print Assumptions c18g_every_global_is_removed_on_every_way_out.

(* the interpreter itself: NewState options and the methods called on the new state are the audited ones
   (Model/Sandbox.v says why SetMx, OpenLibs ... are not among them) *)
Theorem c18_interpreter_configuration :
  lua_newstate_options = audited_options /\ incl lua_state_methods audited_state_methods.
Proof. exact interpreter_config_ok. Qed.
Print Assumptions c18_interpreter_configuration.

(* a WHEREEVAL filter that fails on its object: match leaves by the early return, Close() returns the
   interpreter - clean; a plain removal would be skipped by the early return; and why a guard that lets KEYS
   through is wrong although cmdEvalUnified clears KEYS: whereevalT.match does not *)
Example c18g_failed_filter_leaves_nothing :
  let p := grun (ginit 5) [GBorrow 0 true; GInvoke 0 "Server.parseSearchScanBaseTokens" false [];
                           GInvoke 0 "whereevalT.match" false [mkA "KEYS" false; mkA "anything" false];
                           GInvoke 0 "whereevalT.match" true [mkA "ID" false]; GReturn 0] in
  g_idle p = [0; 1; 2; 3; 4] /\ g_extra p = [] /\
  removed_by "whereevalT.match" true "ID" = true /\
  name_ok "Server.cmdEvalUnified" "KEYS" = true /\ name_ok "whereevalT.match" "KEYS" = false.
Proof. vm_compute. repeat split. Qed.
