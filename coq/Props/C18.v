(* C18 — Scripts are atomic, honour their read-only variants, and are sandboxed.
   Table theorems over coq/Gen (regenerated from /repo on every run). *)
From Coq Require Import String List Bool.
From T38 Require Import Model.Tables Gen.LockTable Gen.Dispatch Gen.ScriptTables Gen.Mutators Gen.LuaAllow
  Model.Gate Model.Sandbox Proofs.GateProofs Proofs.SandboxProofs.
Import ListNotations.
Open Scope string_scope.

(* EVAL / EVALSHA: exclusive server lock for the whole handler, no lock call anywhere inside it or in
   the sub-command path, every sub-command arm lock-free: the script is one critical section *)
Theorem c18_eval_atomic :
  a_lock (arm_of lock_table "eval") = LExcl /\ a_lock (arm_of lock_table "evalsha") = LExcl /\
  fn_takes_lock "cmdEvalUnified" = false /\ fn_takes_lock "luaTile38AtomicRW" = false /\
  forallb (fun a => match a_lock a with LNone => true | _ => false end) (t_default script_rw :: t_arms script_rw) = true /\
  assoc script_variant "eval" = Some script_rw /\ assoc script_variant "evalsha" = Some script_rw.
Proof. exact eval_is_one_critical_section. Qed.
Print Assumptions c18_eval_atomic.

(* and every mutation a sub-command of EVAL can perform is covered by that exclusive lock *)
Theorem c18_eval_sub_commands_locked :
  forallb (fun c => script_cmd_lock_sound script_rw LExcl c) (map h_cmd dispatch_script) = true.
Proof. exact eval_sub_commands_lock_sound. Qed.
Print Assumptions c18_eval_sub_commands_locked.

(* EVALNA: no outer lock; each sub-command takes the exclusive (writes) or shared (reads) lock itself *)
Theorem c18_evalna_per_call :
  a_lock (arm_of lock_table "evalna") = LNone /\ a_lock (arm_of lock_table "evalnasha") = LNone /\
  assoc script_variant "evalna" = Some script_na /\ assoc script_variant "evalnasha" = Some script_na /\
  forallb (fun c => script_cmd_lock_sound script_na LNone c) (map h_cmd dispatch_script) = true.
Proof. exact evalna_per_call. Qed.
Print Assumptions c18_evalna_per_call.

(* every changing sub-command a read-write variant lets through is appended to the log *)
Theorem c18_script_writes_logged :
  forall t, In t [script_rw; script_na] -> forall c, script_logged_check t c = true.
Proof. exact script_writes_logged. Qed.
Print Assumptions c18_script_writes_logged.

(* EVALRO / EVALROSHA: shared lock, and no sub-command that can modify the dataset ever runs *)
Theorem c18_ro_never_mutates : forall c e fn l w,
  script_gate script_ro c e = SRun l w fn -> changes_script c = false /\ w = false.
Proof. exact ro_never_mutates_gate. Qed.
Print Assumptions c18_ro_never_mutates.

Theorem c18_evalro_shared :
  a_lock (arm_of lock_table "evalro") = LShared /\ a_lock (arm_of lock_table "evalrosha") = LShared /\
  assoc script_variant "evalro" = Some script_ro /\ assoc script_variant "evalrosha" = Some script_ro /\
  fn_takes_lock "luaTile38AtomicRO" = false.
Proof. exact evalro_shared_and_pure. Qed.
Print Assumptions c18_evalro_shared.

(* sandbox: what lStatePool.New opens and registers is inside the documented allow-list and
   disjoint from everything that reaches the file system, the process or the network *)
Theorem c18_sandbox :
  lua_skip_open_libs = true /\ lua_newindex_locked = true /\
  incl lua_names documented_allow /\ (forall n, In n lua_names -> ~ In n dangerous_names) /\
  incl lua_module_libs allowed_libs.
Proof. exact sandbox_ok. Qed.
Print Assumptions c18_sandbox.

Example c18_nonvacuous :
  changes_script "set" = true /\ script_gate script_ro "get" (mkEnv false false true false false) = SRun LNone false "cmdGET" /\
  script_gate script_ro "set" (mkEnv false false true false false) = SErrReadOnly /\
  script_gate script_na "set" (mkEnv false false true false false) = SRun LExcl true "cmdSET".
Proof. vm_compute. repeat split. Qed.
