(* C16 — Replies depend on the bytes sent, not on packetisation; bad input is contained.
   Only the property theorems, each closed by a lemma of Proofs/. *)
From T38 Require Import Base.Bytes Model.Resp Model.Pipeline Proofs.RespProofs Proofs.PipelineProofs.
Local Open Scope Z_scope.

(* redcon.ReadNextCommand (RESP, native "$", telnet): a command found in d is the command found in
   d ++ e, with the leftover extended by e; an error found in d is the same error in d ++ e.
   (An Incomplete result puts no constraint: more bytes are awaited.) *)
Theorem c16_complete_stable : forall d e a k r,
  read_next d = Complete a k r -> read_next (d ++ e) = Complete a k (r ++ e).
Proof. exact read_next_complete_stable. Qed.
Print Assumptions c16_complete_stable.

Theorem c16_err_stable : forall d e x, read_next d = Err x -> read_next (d ++ e) = Err x.
Proof. exact read_next_err_stable. Qed.
Print Assumptions c16_err_stable.

(* the tile38-level entry point readNextCommand (HTTP sniff on G/P/O + redcon), for any HTTP
   request parser that is itself stable (hypothesis; exercised black-box by the harness) *)
Theorem c16_cmd_stable : forall http,
  (forall d e, cext e (http d) (http (d ++ e))) ->
  forall d e, cext e (read_cmd http d) (read_cmd http (d ++ e)).
Proof. exact read_cmd_stable. Qed.
Print Assumptions c16_cmd_stable.

(* The carry-over step of ReadMessages is exact: parsing d ++ e in one go gives the messages of d
   followed by what parsing (leftover of d) ++ e gives, with the same leftover and the same error
   point — for every 2-way cut of every stream.  PARTIAL with respect to the planned c16_chunking:
   stated per cut (the induction over k chunks and the sufficiency of ReadMessages' own fuel,
   i.e. progress of every Complete, are not mechanised), and for buffers on which the pinned
   parser does not panic. *)
Theorem c16_chunking_partial : forall http,
  (forall d e, cext e (http d) (http (d ++ e))) ->
  forall e f d ms b f2,
  rm_loop (read_cmd http) f d = RM ms b None ->
  rm_loop (read_cmd http) f2 (b ++ e) <> RMFuel ->
  rm_loop (read_cmd http) (f + f2) (d ++ e) = prepend ms (rm_loop (read_cmd http) f2 (b ++ e)).
Proof. intros http H. exact (rm_loop_app (read_cmd http) (read_cmd_stable http H)). Qed.
Print Assumptions c16_chunking_partial.

Theorem c16_error_point_stable : forall http,
  (forall d e, cext e (http d) (http (d ++ e))) ->
  forall e f d ms b x,
  rm_loop (read_cmd http) f d = RM ms b (Some x) ->
  rm_loop (read_cmd http) f (d ++ e) = RM ms (b ++ e) (Some x).
Proof. intros http H. exact (rm_loop_err (read_cmd http) (read_cmd_stable http H)). Qed.
Print Assumptions c16_error_point_stable.

(* F6: on the pinned code "never panics" is false — a negative bulk length indexes / slices out of
   range in redcon, and nothing recovers on the connection goroutine. *)
Theorem c16_no_panic_refuted :
  read_next [42; 49; 13; 10; 36; 45; 49; 48; 48; 13; 10]%N = Panic /\
  read_next [42; 49; 13; 10; 36; 45; 50; 13; 10]%N = Panic /\
  (forall http, conn_run (read_cmd http) [[42; 49; 13; 10; 36; 45; 50; 13; 10]%N] [] [] = Crashed).
Proof. exact pinned_parser_panics. Qed.
Print Assumptions c16_no_panic_refuted.

(* With the proposed repair (proposed_fixes/C16-parser-panic: recover around the framing parser,
   the panic becomes a protocol error that closes only that connection) no input crashes the reader. *)
Theorem c16_no_panic : forall http chunks buf acc,
  conn_run (read_cmd_fixed http) chunks buf acc <> Crashed.
Proof. intros http. exact (conn_run_no_crash (read_cmd_fixed http) (read_cmd_fixed_no_panic http)). Qed.
Print Assumptions c16_no_panic.

(* non-vacuity: a pipeline of two commands cut inside the second one *)
Example c16_nonvacuous :
  let http := fun _ : bytes => CErr (EHttp 0) in
  let d := [42; 49; 13; 10; 36; 49; 13; 10; 97; 13; 10; 42; 49; 13]%N in
  let e := [10; 36; 49; 13; 10; 98; 13; 10]%N in
  rm_loop (read_cmd http) 20 d = RM [{| m_args := [[97%N]]; m_kind := KRedis |}] [42; 49; 13]%N None /\
  rm_loop (read_cmd http) 40 (d ++ e) =
    RM [{| m_args := [[97%N]]; m_kind := KRedis |}; {| m_args := [[98%N]]; m_kind := KRedis |}] [] None.
Proof. vm_compute. split; reflexivity. Qed.
