(* C16 — Replies depend on the bytes sent, not on packetisation; bad input is contained.
   Only the property theorems, each closed by a lemma of Proofs/. *)
From T38 Require Import Base.Bytes Model.Resp Model.Pipeline Proofs.RespProofs Proofs.PanicProofs Proofs.PipelineProofs.
Local Open Scope Z_scope.

(* redcon.ReadNextCommand (RESP, native $, telnet): a command found in d is the command found in
   d ++ e, with the leftover extended by e; an error found in d is the same error in d ++ e; a run-time
   panic on d is a panic on d ++ e (buffers shorter than 2^62).  Incomplete puts no constraint. *)
Theorem c16_complete_stable : forall d e a k r,
  read_next d = Complete a k r -> read_next (d ++ e) = Complete a k (r ++ e).
Proof. exact read_next_complete_stable. Qed.
Print Assumptions c16_complete_stable.

Theorem c16_err_stable : forall d e x, read_next d = Err x -> read_next (d ++ e) = Err x.
Proof. exact read_next_err_stable. Qed.
Print Assumptions c16_err_stable.

Theorem c16_panic_stable : forall d e, len (d ++ e) < BIG -> read_next d = Panic -> read_next (d ++ e) = Panic.
Proof. exact read_next_panic_stable. Qed.
Print Assumptions c16_panic_stable.

(* the tile38-level entry point readNextCommand: HTTP sniff on G/P/O, the modelled readNextHTTPCommand
   (request line, headers up to Content-Length / Authorization / websocket upgrade, body), else redcon.
   No hypothesis about the HTTP parser is left. *)
Theorem c16_cmd_stable : forall d e, cext e (t38_parse d) (t38_parse (d ++ e)).
Proof. exact t38_parse_stable. Qed.
Print Assumptions c16_cmd_stable.

(* every Complete consumes at least one byte and the parser never runs out of its fuel: ReadMessages'
   loop terminates within its own fuel *)
Theorem c16_progress : forall d,
  match t38_parse d with CComplete _ _ rest => len rest < len d | CFuel => False | _ => True end.
Proof. exact t38_parse_good. Qed.
Print Assumptions c16_progress.

(* k-way chunking, pinned entry point: feeding ANY segmentation of a stream through the ReadMessages
   accumulation (one call per chunk, leftover carried over, stop at the first error) yields the same
   connection outcome — same messages in the same order, same error point, same leftover — as feeding
   the stream in one piece; for every stream no prefix of which makes the pinned parser panic (F6).
   (ReadMessages is modelled with the repair proposed_fixes/C16-http-empty-path-drops-pipeline: an HTTP
   request without a command is an error like any other instead of `return nil, errInvalidHTTP`.) *)
Theorem c16_chunking : forall chunks,
  (forall k, rm_all t38_parse (firstn k (concat chunks)) <> RMPanic) ->
  conn_run t38_parse chunks [] [] = conn_run t38_parse [concat chunks] [] [].
Proof. exact t38_chunking. Qed.
Print Assumptions c16_chunking.

(* the same for the REPAIRED entry point (recover around readNextCommand): NO hypothesis but the length is left —
   a malformed frame is reported as the same protocol error after the same messages whatever the
   segmentation; streams shorter than 2^62 bytes. *)
Theorem c16_chunking_fixed : forall chunks,
  len (concat chunks) < BIG ->
  conn_run t38_parse_fixed chunks [] [] = conn_run t38_parse_fixed [concat chunks] [] [].
Proof. exact t38_fixed_chunking. Qed.
Print Assumptions c16_chunking_fixed.

(* netServe hands each socket read to ONE ReadMessages call, whose single Read takes at most the pipeline
   buffer; what does not fit is parked in client.in (InputStream) until the NEXT socket read.  As long as the
   socket read size does not exceed the pipeline buffer size nothing is ever parked and netServe's loop is
   exactly the conn_run of the chunking theorems.  The hypothesis is explicit; the source's two constants
   (Model/Pipeline.v sock_read_size, pipeline_buf_size; compared with the literals of server.go by the
   harness on every run) satisfy it. *)
Theorem c16_in_b_dead : forall parse rsz psz reads buf acc,
  (rsz <= psz)%nat -> Forall (fun r => (length r <= rsz)%nat) reads ->
  serve_reads parse psz reads [] buf acc = of_conn (conn_run parse reads buf acc).
Proof. exact in_b_dead. Qed.
Print Assumptions c16_in_b_dead.

Theorem c16_source_read_size_fits : (N.to_nat sock_read_size <= N.to_nat pipeline_buf_size)%nat.
Proof. exact source_sizes_fit. Qed.
Print Assumptions c16_source_read_size_fits.

(* the hypothesis is needed: a read one byte larger than the buffer leaves a complete command unparsed *)
Theorem c16_oversized_read_refuted :
  let r := [80; 73; 78; 71; 13; 10]%N in
  serve_reads t38_parse_fixed 5 [r] [] [] [] = SOpen [] [80; 73; 78; 71; 13]%N [10%N] /\
  conn_run t38_parse_fixed [r] [] [] = Open [{| m_args := [[80; 73; 78; 71]%N]; m_kind := KTelnet |}] [].
Proof. exact oversized_read_parks. Qed.
Print Assumptions c16_oversized_read_refuted.

(* F6: on the pinned code "never panics" is false — a negative bulk length indexes / slices out of
   range in redcon, and nothing recovers on the connection goroutine. *)
Theorem c16_no_panic_refuted :
  read_next [42; 49; 13; 10; 36; 45; 49; 48; 48; 13; 10]%N = Panic /\
  read_next [42; 49; 13; 10; 36; 45; 50; 13; 10]%N = Panic /\
  (forall http, conn_run (read_cmd http) [[42; 49; 13; 10; 36; 45; 50; 13; 10]%N] [] [] = Crashed).
Proof. exact pinned_parser_panics. Qed.
Print Assumptions c16_no_panic_refuted.

(* With the repair no byte string makes the tile38-level entry point panic — RESP, native, telnet and
   HTTP paths alike (the panics of redcon and of readNativeMessageLine are the outcome the recover
   produces, CErr EPanicRecovered) — and no chunk sequence crashes the connection reader. *)
Theorem c16_no_panic : (forall d, t38_parse_fixed d <> CPanic) /\
  (forall chunks buf acc, conn_run t38_parse_fixed chunks buf acc <> Crashed).
Proof. split; [exact t38_fixed_no_panic|exact (conn_run_no_crash t38_parse_fixed t38_fixed_no_panic)]. Qed.
Print Assumptions c16_no_panic.

(* the crash inputs of the pinned build, through the repaired entry point: a protocol error *)
Example c16_recovered_inputs :
  t38_parse_fixed [42; 49; 13; 10; 36; 45; 50; 13; 10]%N = CErr EPanicRecovered /\                       (* *1\r\n$-2\r\n *)
  t38_parse_fixed [36;49;55;32;83;69;84;32;107;32;105;100;32;83;84;82;73;78;71;32;34;13;10]%N = CErr EPanicRecovered /\  (* $17 SET k id STRING <one double quote> *)
  t38_parse_fixed [71;69;84;32;47;83;69;84;43;107;43;105;100;43;83;84;82;73;78;71;43;34;32;72;84;84;80;47;49;46;49;13;10;13;10]%N
    = CErr EPanicRecovered.                                                                               (* GET /SET+k+id+STRING+<one double quote> HTTP/1.1 *)
Proof. vm_compute. repeat split; reflexivity. Qed.

(* non-vacuity: a pipeline of two commands and a malformed frame, cut in three different ways *)
Example c16_nonvacuous :
  let s1 := [42; 49; 13; 10; 36; 49; 13; 10; 97; 13; 10; 42; 49; 13]%N in
  let s2 := [10; 36; 49; 13; 10; 98; 13; 10; 42; 49; 13; 10; 36; 45]%N in
  let s3 := [50; 13; 10]%N in
  let whole := conn_run t38_parse_fixed [s1 ++ s2 ++ s3] [] [] in
  whole = Closed [{| m_args := [[97%N]]; m_kind := KRedis |}; {| m_args := [[98%N]]; m_kind := KRedis |}] EPanicRecovered /\
  conn_run t38_parse_fixed [s1; s2; s3] [] [] = whole /\
  conn_run t38_parse_fixed [s1 ++ s2; s3] [] [] = whole /\
  conn_run t38_parse [s1; s2] [] [] = conn_run t38_parse [s1 ++ s2] [] [].
Proof. vm_compute. repeat split; reflexivity. Qed.
