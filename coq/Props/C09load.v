(* C09 — what a restart makes of the rewritten log (continuation of Props/C09.v).
   Only property theorems, each closed by a lemma of Proofs/ShrinkLoadProofs.v, and closed examples. *)
From Coq Require Import String.
From Coq Require Import List NArith ZArith Bool.
From T38 Require Import Base.Bytes Base.SMap Model.Shrink Model.ShrinkLoad Proofs.ShrinkProofs Proofs.ShrinkLoadProofs.
Import ListNotations.

(* As t38x reads the source on every run (Gen/ShrinkFinal.v): the reserved-field-name checks of cmdSET
   and of cmdFSET — the only two call sites — both compare strings.TrimSpace(name), i.e. the name
   field.Make is going to store, with the reserved names; and Serve completes an interrupted
   AOFSHRINK swap BEFORE it decides whether the legacy "aof" file has to be migrated. *)
Theorem c09_load_checks_transcribed :
  set_txs_src = Some [TTrim] /\ fset_txs_src = Some [TTrim] /\
  check_sites_src = ["cmdFSET"; "cmdSET"]%string /\ startup_src = Some startup_ops.
Proof. exact load_checks_transcribed. Qed.
Print Assumptions c09_load_checks_transcribed.

(* Field names.  "Every record the rewrite emits is accepted by the loader and reproduces the object":
   f_set / f_fset are what SET's / FSET's check compares with the reserved names.  If SET looks at a
   stored name the way it looked at the name as sent (set_of_stored) and the way FSET looked at the
   name it accepted (fset_then_set: whatever FSET lets through, SET lets through on replay), then
   every accepted command keeps "all stored names are trimmed and accepted by SET" ... *)
Theorem c09_names_invariant :
  forall trim f_set f_fset,
    (forall n, f_set (trim n) = f_set n) -> (forall n, f_set (trim n) = f_fset n) ->
    (forall n, trim (trim n) = trim n) ->
  forall s c s' o, names_ok trim f_set s -> exec_n trim f_set f_fset s c = Some (s', o) -> names_ok trim f_set s'.
Proof. exact exec_n_names_ok. Qed.
Print Assumptions c09_names_invariant.

(* ... hence the snapshot of every dataset built by any sequence of commands (refused ones included)
   is accepted by the loader record by record, and loads to what the unchecked replay of the other
   C09 theorems gives: the reserved-name check can never stop the server from starting on a
   rewritten log. *)
Theorem c09_names_snapshot_loads :
  forall trim f_set f_fset,
    (forall n, f_set (trim n) = f_set n) -> (forall n, f_set (trim n) = f_fset n) ->
    (forall n, trim (trim n) = trim n) ->
  forall l s0, let s := run_n trim f_set f_fset l [] in
    replay_n trim f_set f_fset (map rec_of (flatten s)) s0 = Some (replay (map rec_of (flatten s)) s0).
Proof. exact reachable_snapshot_loads. Qed.
Print Assumptions c09_names_snapshot_loads.

(* the checks as they are written in the source satisfy the hypotheses, for every idempotent trim *)
Theorem c09_names_snapshot_loads_src :
  forall trim fs ff, (forall n, trim (trim n) = trim n) ->
    set_txs_src = Some fs -> fset_txs_src = Some ff ->
  forall l s0, let s := run_n trim (f_of trim fs) (f_of trim ff) l [] in
    replay_n trim (f_of trim fs) (f_of trim ff) (map rec_of (flatten s)) s0 = Some (replay (map rec_of (flatten s)) s0).
Proof. exact snapshot_loads_src. Qed.
Print Assumptions c09_names_snapshot_loads_src.

Theorem c09_names_snapshot_record_loads :
  forall trim f_set f_fset s k i o s', names_ok trim f_set s -> lookup k i s = Some o ->
    exec_n trim f_set f_fset s' (rec_cmd k i o) = Some (exec s' (rec_cmd k i o)).
Proof. exact snapshot_record_loads. Qed.
Print Assumptions c09_names_snapshot_record_loads.

(* The check on the name as sent (pinned tree): SET k id FIELD " z" 5 ... is accepted and stored as z;
   the snapshot record is refused: the server does not start.  The repaired check refuses the SET. *)
Theorem c09_names_check_as_sent_refuted :
  exists c s', exec_n trim_ws f_id f_id [] c = Some (s', Updated) /\
    (exists k i o, lookup k i s' = Some o) /\
    replay_n trim_ws f_id f_id (map rec_of (flatten s')) [] = None /\
    exec_n trim_ws trim_ws trim_ws [] c = None.
Proof. exact names_check_as_sent_refuted. Qed.
Print Assumptions c09_names_check_as_sent_refuted.

(* SET stricter than FSET (SET lower-cases the name before the check, FSET does not): the log
   SET k id ...; FSET k id LON 7 loads, its snapshot "set k id field LON 7 ..." does not; LON is a name
   FSET accepts and SET refuses. *)
Theorem c09_names_set_stricter_refuted :
  exists l, let s := run_n trim_ws f_set_lower trim_ws l [] in
    replay_n trim_ws f_set_lower trim_ws l [] = Some s /\
    (exists k i o, lookup k i s = Some o /\ o_fields o <> []) /\
    replay_n trim_ws f_set_lower trim_ws (map rec_of (flatten s)) [] = None /\
    (exists n, reserved (trim_ws n) = false /\ reserved (f_set_lower (trim_ws n)) = true).
Proof. exact names_set_stricter_refuted. Qed.
Print Assumptions c09_names_set_stricter_refuted.

(* Coordinates the GeoJSON text cannot carry.  The repaired snapshot writer (shrinkGeoArgs), with or
   without REQUIREVALID (rv): every point and rectangle POINT / BOUNDS can create (NaN, +Inf, -Inf,
   positions outside -180..180 / -90..90 included), and every other object the same server accepted
   through the GeoJSON reader (finite coordinates; valid ones under REQUIREVALID), is read back with
   the same type and coordinates.  Partial: other geometries with an infinite coordinate
   (c09_geo_other_nonfinite_refuted). *)
Theorem c09_geo_roundtrip_partial :
  forall rv g,
    match g with
    | GOther k cs => bytes_eqb k k_point = false /\ forallb finite cs = true /\ (rv = true -> forallb valid cs = true)
    | _ => True
    end ->
    option_map coords (dec rv (enc g)) = Some (coords g).
Proof. exact geo_roundtrip. Qed.
Print Assumptions c09_geo_roundtrip_partial.

(* pinned writer: POINT 1 inf comes back as POINT 1 NaN; BOUNDS 1 2 nan 4 is refused at load *)
Theorem c09_geo_orig_refuted :
  (exists g g', dec false (enc_orig g) = Some g' /\ coords g' <> coords g) /\
  (exists g, dec false (enc_orig g) = None).
Proof. exact geo_orig_refuted. Qed.
Print Assumptions c09_geo_orig_refuted.

(* the writer that only looks for non-finite coordinates, under REQUIREVALID: POINT 100 200 is accepted,
   written as a GeoJSON Point and refused at load (the server does not start); the repaired writer
   gives it back *)
Theorem c09_geo_requirevalid_refuted :
  exists g, dec true (enc_finite g) = None /\ option_map coords (dec false (enc_finite g)) = Some (coords g) /\
            option_map coords (dec true (enc g)) = Some (coords g).
Proof. exact geo_requirevalid_refuted. Qed.
Print Assumptions c09_geo_requirevalid_refuted.

(* open finding C09-object-overflow-coordinate: a LineString with an infinite coordinate *)
Theorem c09_geo_other_nonfinite_refuted :
  exists k cs, bytes_eqb k k_point = false /\ dec false (enc (GOther k cs)) = None.
Proof. exact geo_other_nonfinite_refuted. Qed.
Print Assumptions c09_geo_other_nonfinite_refuted.

(* Start-up order.  With restore before migrate, every crash point of the final section is recovered
   whatever legacy file and other files the directory holds, under every log name (dflt = the name
   migrateAOF looks at, n = the configured name) ... *)
Theorem c09_crash_points_legacy :
  forall dflt legacy n rest fi c, msorted rest ->
    same_data (replay (f_snap fi ++ f_slog fi) []) (replay (f_live fi ++ f_pend fi) []) ->
    exists s, startup startup_ops dflt legacy n (to_fs n (crash_at fi c) rest) = Some s /\
      (same_data s (replay (f_live fi) []) \/ same_data s (replay (f_live fi ++ f_pend fi) [])).
Proof. exact crash_points_legacy. Qed.
Print Assumptions c09_crash_points_legacy.

(* ... also for the order read from the source *)
Theorem c09_crash_points_legacy_src :
  forall dflt legacy n rest fi c ops, startup_src = Some ops -> msorted rest ->
    same_data (replay (f_snap fi ++ f_slog fi) []) (replay (f_live fi ++ f_pend fi) []) ->
    exists s, startup ops dflt legacy n (to_fs n (crash_at fi c) rest) = Some s /\
      (same_data s (replay (f_live fi) []) \/ same_data s (replay (f_live fi ++ f_pend fi) [])).
Proof. exact crash_points_legacy_src. Qed.
Print Assumptions c09_crash_points_legacy_src.

(* migrate before restore: after a crash between the two renames the legacy file is migrated into
   the live name, the backup is ignored, and the server serves the legacy data *)
Theorem c09_startup_migrate_first_refuted :
  exists fi, crash_hyp fi /\
    startup startup_ops_orig n_dflt n_legacy n_dflt (to_fs n_dflt (crash_at fi CP_after_rename_bak) [(n_legacy, f_old)])
      = Some (replay f_old []) /\
    (exists k i, lookup k i (replay f_old []) <> lookup k i (replay (f_live fi) [])) /\
    startup startup_ops n_dflt n_legacy n_dflt (to_fs n_dflt (crash_at fi CP_after_rename_bak) [(n_legacy, f_old)])
      = Some (replay (f_live fi) []).
Proof. exact startup_migrate_first_refuted. Qed.
Print Assumptions c09_startup_migrate_first_refuted.

(* trim_ws on samples: idempotent; padded reserved names are refused, padded ordinary names are stored
   trimmed; a dataset built through such commands has names_ok-style snapshot records that load *)
Example c09_ex_names :
  forallb (fun n => bytes_eqb (trim_ws (trim_ws n)) (trim_ws n))
    [[32; 122]; [122; 9; 10]; [194; 160; 108; 97; 116; 194; 133]; [32; 32]; []; [97; 32; 98]; [194; 97]; [160; 194; 160]]%N = true /\
  exec_n trim_ws trim_ws trim_ws [] (CSet [107] [49] [([32; 122]%N, Some [53%N])] false [120]%N) = None /\
  exec_n trim_ws trim_ws trim_ws [] (CSet [107] [49] [([108; 97; 116; 9]%N, Some [53%N])] false [120]%N) = None /\
  let l := [CSet [107] [49] [([32; 115; 32]%N, Some [53%N]); ([90]%N, Some [54%N])] false [120]%N;
            CFset [107] [49] [([9; 108; 111; 110]%N, Some [55%N])];
            CFset [107] [49] [([32; 97; 32]%N, Some [56%N])]] in
  let s := run_n trim_ws trim_ws trim_ws l [] in
  lookup [107%N] [49%N] s = Some (mkObj [120%N] [([90%N], [54%N]); ([97%N], [56%N]); ([115%N], [53%N])] false) /\
  replay_n trim_ws trim_ws trim_ws (map rec_of (flatten s)) [] = Some s.
Proof. vm_compute. repeat split; reflexivity. Qed.

(* payloads: what the repaired writer emits and what comes back *)
Example c09_ex_geo :
  enc (GPoint (Fin t1 true) PInf) = PPoint [Fin t1 true; PInf] /\
  enc (GRect NInf NInf PInf PInf) = PBounds [NInf; NInf; PInf; PInf] /\
  enc (GPointZ (Fin t1 true) (Fin t2 true) NaN) = PPoint [Fin t1 true; Fin t2 true; NaN] /\
  enc (GPoint (Fin t100 false) (Fin t200 false)) = PPoint [Fin t100 false; Fin t200 false] /\
  enc (GPoint (Fin t1 true) (Fin t2 true)) = PObject k_point [JNum t2 true; JNum t1 true] /\
  dec true (enc (GRect (Fin t1 true) (Fin t2 true) (Fin t4 true) (Fin t5 true))) =
    Some (GOther k_polygon [Fin t2 true; Fin t1 true; Fin t5 true; Fin t1 true; Fin t5 true; Fin t4 true;
                            Fin t2 true; Fin t4 true; Fin t2 true; Fin t1 true]).
Proof. vm_compute. repeat split; reflexivity. Qed.
