(* C02 (continued) — the query area.  WITHIN / INTERSECTS and TEST each have their own parser from area
   tokens to a geojson object (search.go cmdSearchArgs + parseRectArea; test.go parseArea behind
   token.go parseAreaExpression and cmdTEST).  c02_search_equals_test (Props/C02.v) is about "the same
   area"; these theorems are about the two parsers building it (Model/AreaParse.v, tied to the code by
   harness/cmd/c02/areas.go).  For every instantiation of the library oracles (strings.ToLower,
   strconv.ParseFloat, geojson.Parse of OBJECT and of the sector polygon, the keyspace lookup of GET).
   Only the property theorems, each closed by a lemma of Proofs/. *)
From Coq Require Import String List Bool ZArith NArith.
From T38 Require Import Base.Bytes Model.Float32 Model.Collection Model.Search Model.AreaParse
  Proofs.CollectionProofs Proofs.SearchProofs
  Proofs.AreaParseBing Proofs.AreaParseProofs Proofs.AreaParseCompose.
Import ListNotations.
Local Open Scope Z_scope.

(* ---------------------------------------------------------------- neither parser panics *)

(* cmdSearchArgs from the type word to the end of the CLIPBY loop: for every command, every
   combination of FENCE / CLIP / "BOUNDS read as output format" and every token list, no index out of
   range, no QuadKeyToTileXY panic, and the CLIPBY loop ends. *)
Theorem c02ar_search_never_panics : forall lower pf gj_ok sec_ok lookup cmd fence clip outb vs,
  search_area lower pf gj_ok sec_ok lookup cmd fence clip outb vs <> Panic /\
  search_area lower pf gj_ok sec_ok lookup cmd fence clip outb vs <> NoFuel.
Proof. exact search_area_no_panic. Qed.
Print Assumptions c02ar_search_never_panics.

(* parseArea, and cmdTEST's second half through parseAreaExpression (on the token lists that do not
   build an AND / OR / NOT / parenthesis tree; those answer TOutside). *)
Theorem c02ar_test_never_panics : forall lower pf gj_ok sec_ok lookup,
  (forall dc vs, parse_area lower pf gj_ok sec_ok lookup dc vs <> Panic /\
                 parse_area lower pf gj_ok sec_ok lookup dc vs <> NoFuel) /\
  (forall isect a1nil vs, test_tail lower pf gj_ok sec_ok lookup isect a1nil vs <> TPanic /\
                          test_tail lower pf gj_ok sec_ok lookup isect a1nil vs <> TNoFuel).
Proof. exact test_side_no_panic. Qed.
Print Assumptions c02ar_test_never_panics.

(* ---------------------------------------------------------------- the same tokens, the same area *)

(* WITHIN / INTERSECTS accepted the tokens (no CLIP before them, BOUNDS not read as the output format;
   FENCE or not): then TEST … WITHIN|INTERSECTS <the same tokens>
     - builds exactly the same object and consumes every token, when the search area is one of POINT,
       CIRCLE, OBJECT, SECTOR, BOUNDS, HASH, QUADKEY, TILE, GET without CLIPBY;
     - answers "invalid number of arguments" for the two things only the search side knows: MVT
       (s_mvt) and CLIPBY (AClip).
   The hypothesis tile_z_unsigned excludes TILE x y z with a sign in front of z (c02ar_tile_sign_refuted). *)
Theorem c02ar_search_ok_test_same : forall lower pf gj_ok sec_ok lookup cmd fence isect vs r,
  is_nearby cmd = false ->
  search_area lower pf gj_ok sec_ok lookup cmd fence false false vs = Ok r ->
  tile_z_unsigned lower vs = true ->
  test_tail lower pf gj_ok sec_ok lookup isect false vs = expected_test r.
Proof. exact search_ok_test_same. Qed.
Print Assumptions c02ar_search_ok_test_same.

(* TEST accepted the tokens as one object a (no CLIP): then the search side builds the same object
   from them with no MVT / CLIP / ROAM side effect — except that (2) TEST parses and ignores further
   areas after the first where search demands CLIPBY ("invalid number of arguments"), and (3) TEST
   evaluates TILE x y z for every int64 x, y and uint64 z where search demands 0 <= x, 0 <= y, z <= 23. *)
Theorem c02ar_test_ok_search_same : forall lower pf gj_ok sec_ok lookup cmd fence isect vs a,
  is_nearby cmd = false ->
  test_tail lower pf gj_ok sec_ok lookup isect false vs = TOk false a ->
  (exists r, search_area lower pf gj_ok sec_ok lookup cmd fence false false vs = Ok r /\ s_obj r = a /\
             s_mvt r = false /\ s_clip r = false /\ s_outreset r = false /\ s_roam r = None)
  \/ (search_area lower pf gj_ok sec_ok lookup cmd fence false false vs = Err ENumArgs /\
      exists rest, parse_area lower pf gj_ok sec_ok lookup false vs = Ok (rest, a) /\ rest <> [])
  \/ (exists x y z t, a = ATile x y z /\ (x < 0 \/ y < 0 \/ 23 < z) /\
      search_area lower pf gj_ok sec_ok lookup cmd fence false false vs = Err (EInvalidArg t)).
Proof. exact test_ok_search_same. Qed.
Print Assumptions c02ar_test_ok_search_same.

(* Both fail: for the eight words on which the parsers run the same statements, an error of the search
   side is the same error value (same text) on the TEST side, unless the area itself was fine and the
   error is about what follows it (CLIPBY syntax against expression syntax). *)
Theorem c02ar_same_error : forall lower pf gj_ok sec_ok lookup cmd fence isect typ vs1 e,
  is_nearby cmd = false -> is_empty typ = false ->
  shared_any (lower typ) = true \/ shared_noclip (lower typ) = true ->
  search_area lower pf gj_ok sec_ok lookup cmd fence false false (typ :: vs1) = Err e ->
  test_tail lower pf gj_ok sec_ok lookup isect false (typ :: vs1) = TErr e
  \/ exists rest a, parse_area lower pf gj_ok sec_ok lookup false (typ :: vs1) = Ok (rest, a) /\ rest <> [].
Proof. exact shared_error_same. Qed.
Print Assumptions c02ar_same_error.

(* The switch of cmdSearchArgs and parseArea are the same function on the shared words: same object,
   same rest of the token list, same error — with CLIP too for POINT / BOUNDS / HASH / QUADKEY. *)
Theorem c02ar_switch_is_parse_area : forall lower pf gj_ok sec_ok lookup cmd clip typ vs,
  is_nearby cmd = false -> is_empty typ = false ->
  (shared_any (lower typ) = true \/ (clip = false /\ shared_noclip (lower typ) = true)) ->
  search_switch lower pf gj_ok sec_ok lookup cmd clip (lower typ) vs
  = lift clip (parse_area lower pf gj_ok sec_ok lookup clip (typ :: vs)).
Proof. exact switch_shared. Qed.
Print Assumptions c02ar_switch_is_parse_area.

(* With CLIP both refuse CIRCLE / OBJECT / SECTOR / GET, whatever follows; the texts differ by design
   ("invalid argument 'cannot clip with circle'" against "invalid clip type 'CIRCLE'"). *)
Theorem c02ar_clip_refused_texts_differ : forall lower pf gj_ok sec_ok lookup cmd typ vs,
  is_empty typ = false ->
  beq (lower typ) "circle" || beq (lower typ) "object" || beq (lower typ) "sector"
    || beq (lower typ) "get" = true ->
  (exists m, search_switch lower pf gj_ok sec_ok lookup cmd true (lower typ) vs
             = Err (EInvalidArg (lit "cannot clip with " ++ m)))
  /\ parse_area lower pf gj_ok sec_ok lookup true (typ :: vs) = Err (EClipType typ).
Proof. exact switch_clip_refused. Qed.
Print Assumptions c02ar_clip_refused_texts_differ.

(* ---------------------------------------------------------------- with the index theorem *)

(* WITHIN|INTERSECTS key … <tokens> returns exactly the ids for which TEST GET key id WITHIN|INTERSECTS
   <the same tokens> answers 1: the tokens denote the same object on both sides (previous theorems) and
   for one object the index walk equals the index-free evaluation (c02_search_equals_test). *)
Theorem c02ar_tokens_search_equals_test :
  forall lower pf gj_ok sec_ok lookup (Q : Type) (denote : area -> Q) (qrect : Q -> rect64)
         (hits : obj -> Q -> bool) c cmd fence isect vs r,
  is_nearby cmd = false ->
  search_area lower pf gj_ok sec_ok lookup cmd fence false false vs = Ok r ->
  tile_z_unsigned lower vs = true ->
  s_mvt r = false -> plain (s_obj r) = true ->
  Wf c ->
  (forall o, o_empty o = false -> hits o (denote (s_obj r)) = true ->
             overlap64 (o_rect o) (qrect (denote (s_obj r)))) ->
  (forall o, o_empty o = false -> hits o (denote (s_obj r)) = true -> o_spatial o = true) ->
  exists a, test_tail lower pf gj_ok sec_ok lookup isect false vs = TOk false a /\
    (forall o, In o (search Q qrect hits c (denote (s_obj r))) <-> In o (test_spec Q hits c (denote a))) /\
    NoDup (map o_id (search Q qrect hits c (denote (s_obj r)))).
Proof. exact tokens_search_equals_test. Qed.
Print Assumptions c02ar_tokens_search_equals_test.

(* ---------------------------------------------------------------- the BOUNDS shorthand *)

(* "WITHIN key BOUNDS minlat minlon maxlat maxlon": parseSearchScanBaseTokens took BOUNDS for the output
   format; when the next token is a number cmdSearchArgs parses exactly as if BOUNDS had been the area
   word, and resets the output format. *)
Theorem c02ar_bounds_shorthand : forall lower pf gj_ok sec_ok lookup cmd fence clip t vs b,
  is_nearby cmd = false -> is_empty t = false -> pf t = Some b ->
  search_area lower pf gj_ok sec_ok lookup cmd fence clip true (t :: vs) =
    match search_area lower pf gj_ok sec_ok lookup cmd fence clip false (lit "BOUNDS" :: t :: vs) with
    | Ok r => Ok (mkS (s_obj r) true (s_tile r) (s_mvt r) (s_clip r) (s_roam r))
    | x => x
    end.
Proof. exact bounds_shorthand. Qed.
Print Assumptions c02ar_bounds_shorthand.

(* ---------------------------------------------------------------- the search object is never nil *)

(* Every accepted WITHIN / INTERSECTS — any FENCE / CLIP flags, the BOUNDS shorthand included, any
   CLIPBY chain — leaves a search object: Collection.Within / Intersects never receive nil. *)
Theorem c02ar_search_obj_nonnil : forall lower pf gj_ok sec_ok lookup cmd fence clip outb vs r,
  is_nearby cmd = false ->
  search_area lower pf gj_ok sec_ok lookup cmd fence clip outb vs = Ok r -> s_obj r <> ANil.
Proof. exact search_obj_nonnil. Qed.
Print Assumptions c02ar_search_obj_nonnil.

(* The pinned code (before /repo 1d3bf59) refuted it: GEO was in withinOrIntersectsTypes and has no arm in
   the switch (finding C02-within-geo-nil, fixed: WITHIN key GEO made the server dereference nil). The
   repaired code refuses the word. *)
Theorem c02ar_search_obj_nonnil_pinned_refuted :
  (exists vs r, search0_pinned CWithin false false false vs = Ok r /\ s_obj r = ANil) /\
  search0 CWithin false false false (toks ["GEO"%string]) = Err (EInvalidArg (lit "GEO")).
Proof. exact geo_nil_pinned_witness. Qed.
Print Assumptions c02ar_search_obj_nonnil_pinned_refuted.

(* "CLIP cannot be combined with GET" (now part of c02ar_clip_refused_texts_differ) was FALSE in the pinned
   code (before /repo 7096363) as soon as a CLIPBY followed: the arm set err and did not return, and the
   CLIPBY loop overwrote err (finding C02-clip-get-clipby, fixed). The repaired code refuses both. *)
Theorem c02ar_clip_get_pinned_refuted :
  (search0_pinned CIntersects false true false (toks ["GET"; "k"; "i"]%string)
     = Err (EInvalidArg (lit "cannot clip with get")) /\
   exists r, search0_pinned CIntersects false true false
               (toks ["GET"; "k"; "i"; "CLIPBY"; "BOUNDS"; "0"; "0"; "1"; "1"]%string) = Ok r
             /\ s_clip r = true
             /\ s_obj r = AClip (AGet (lit "k") (lit "i")) (ABounds 0 0 4607182418800017408 4607182418800017408)) /\
  search0 CIntersects false true false (toks ["GET"; "k"; "i"; "CLIPBY"; "BOUNDS"; "0"; "0"; "1"; "1"]%string)
    = Err (EInvalidArg (lit "cannot clip with get")).
Proof. exact clip_get_pinned_witness. Qed.
Print Assumptions c02ar_clip_get_pinned_refuted.

(* ---------------------------------------------------------------- where the two parsers differ *)

(* "search accepts => TEST builds the same" is FALSE for TILE x y +z: Atoi reads the sign, ParseUint
   refuses it (finding C02-tile-sign). *)
Theorem c02ar_tile_sign_refuted :
  exists vs r, search0 CWithin false false false vs = Ok r /\ s_obj r = ATile 0 0 1 /\
               test0 false false vs = TErr (EInvalidArg (lit "+1")).
Proof. exact tile_sign_witness. Qed.
Print Assumptions c02ar_tile_sign_refuted.

(* "TEST accepts => search accepts" is FALSE in the two ways c02ar_test_ok_search_same lists. *)
Theorem c02ar_tile_range_refuted :
  (search0 CWithin false false false (toks ["TILE"; "-1"; "0"; "5"]%string) = Err (EInvalidArg (lit "-1")) /\
   test0 false false (toks ["TILE"; "-1"; "0"; "5"]%string) = TOk false (ATile (-1) 0 5)) /\
  (search0 CWithin false false false (toks ["TILE"; "0"; "0"; "24"]%string) = Err (EInvalidArg (lit "24")) /\
   test0 false false (toks ["TILE"; "0"; "0"; "24"]%string) = TOk false (ATile 0 0 24)).
Proof. exact tile_range_witness. Qed.
Print Assumptions c02ar_tile_range_refuted.

Theorem c02ar_trailing_area_refuted :
  search0 CWithin false false false
    (toks ["BOUNDS"; "0"; "0"; "1"; "1"; "BOUNDS"; "5"; "5"; "5"; "5"]%string) = Err ENumArgs /\
  test0 false false (toks ["BOUNDS"; "0"; "0"; "1"; "1"; "BOUNDS"; "5"; "5"; "5"; "5"]%string)
    = TOk false (ABounds 0 0 4607182418800017408 4607182418800017408).
Proof. exact trailing_area_witness. Qed.
Print Assumptions c02ar_trailing_area_refuted.

(* An unknown area word fails on both sides with different texts, by design. *)
Theorem c02ar_unknown_word_texts_differ :
  search0 CWithin false false false (toks ["FOO"%string]) = Err (EInvalidArg (lit "FOO")) /\
  test0 false false (toks ["FOO"%string]) = TErr ENumArgs.
Proof. exact unknown_word_witness. Qed.
Print Assumptions c02ar_unknown_word_texts_differ.

(* ---------------------------------------------------------------- internal/bing quadkeys *)

(* levelOfDetail = len(quadKey) *)
Theorem c02ar_quadkey_level : forall k x y z,
  quadkey_to_tilexy k = Some (x, y, z) -> z = Z.of_nat (length k).
Proof. exact quadkey_level. Qed.
Print Assumptions c02ar_quadkey_level.

(* QuadKeyToTileXY panics exactly on a character outside '0'..'3' ... *)
Theorem c02ar_quadkey_panics_iff : forall k,
  quadkey_to_tilexy k = None <-> forallb quadkey_digit k = false.
Proof. exact quadkey_panics_iff. Qed.
Print Assumptions c02ar_quadkey_panics_iff.

(* ... which QuadKeyToBounds checks first: it never panics, for a string of any length. *)
Theorem c02ar_quadkey_bounds_never_panics : forall k,
  quadkey_to_bounds k <> Panic /\ quadkey_to_bounds k <> NoFuel.
Proof. exact quadkey_to_bounds_no_panic. Qed.
Print Assumptions c02ar_quadkey_bounds_never_panics.

(* Up to 63 digits: bit (level-1-j) of tileX / tileY is the low / high bit of digit j and no other bit
   is set, so 0 <= tileX, tileY < 2^level. *)
Theorem c02ar_quadkey_bits : forall k x y z, (length k <= 63)%nat ->
  quadkey_to_tilexy k = Some (x, y, z) ->
  (forall j, (j < length k)%nat ->
     Z.testbit x (Z.of_nat (length k - 1 - j)) = dig_x (nth j k 0%N) /\
     Z.testbit y (Z.of_nat (length k - 1 - j)) = dig_y (nth j k 0%N))
  /\ (forall m, Z.of_nat (length k) <= m -> Z.testbit x m = false /\ Z.testbit y m = false).
Proof. exact quadkey_bits. Qed.
Print Assumptions c02ar_quadkey_bits.

Theorem c02ar_quadkey_range : forall k x y z, (length k <= 63)%nat ->
  quadkey_to_tilexy k = Some (x, y, z) -> 0 <= x < 2 ^ z /\ 0 <= y < 2 ^ z.
Proof. exact quadkey_range. Qed.
Print Assumptions c02ar_quadkey_range.

(* TileXYToQuadKey (QuadKeyToTileXY k) = k *)
Theorem c02ar_quadkey_roundtrip : forall k x y z, (length k <= 63)%nat ->
  quadkey_to_tilexy k = Some (x, y, z) -> tilexy_to_quadkey (Z.to_nat z) x y = k.
Proof. exact quadkey_roundtrip. Qed.
Print Assumptions c02ar_quadkey_roundtrip.

(* Beyond 64 digits int64(1 << (i-1)) is 0: leading digits are ignored (QUADKEY accepts any length). *)
Theorem c02ar_quadkey_leading_ignored : forall c k x y, (64 <= length k)%nat -> quadkey_digit c = true ->
  qk_loop (c :: k) x y = qk_loop k x y.
Proof. exact quadkey_leading_ignored. Qed.
Print Assumptions c02ar_quadkey_leading_ignored.

(* ---------------------------------------------------------------- non-vacuity *)

(* The agreement theorems' hypotheses hold for concrete token lists (ASCII lower-casing, ParseFloat on
   the literals used): a circle, a sector in lower case, a mixed-case quadkey decoded to tile 5/3/4. *)
Example c02ar_agreement_nonvacuous :
  (exists r, search0 CWithin false false false (toks ["CIRCLE"; "1"; "5"; "24"]%string) = Ok r /\
             test0 false false (toks ["CIRCLE"; "1"; "5"; "24"]%string) = TOk false (s_obj r) /\
             s_obj r = ACircle 4607182418800017408 4617315517961601024 4627448617123184640) /\
  (exists r, search0 CIntersects false false false (toks ["sector"; "0"; "0"; "24"; "1"; "5"]%string) = Ok r /\
             test0 true false (toks ["sector"; "0"; "0"; "24"; "1"; "5"]%string) = TOk false (s_obj r) /\
             s_obj r = ASector 0 0 4627448617123184640 4607182418800017408 4617315517961601024) /\
  (exists r, search0 CWithin false false false (toks ["QuadKey"; "0123"]%string) = Ok r /\
             test0 false false (toks ["QuadKey"; "0123"]%string) = TOk false (s_obj r) /\
             s_obj r = ATile 5 3 4).
Proof. exact agreement_nonvacuous. Qed.

Example c02ar_quadkey_roundtrip_example :
  quadkey_to_tilexy (lit "0313102310") = Some (486, 332, 10) /\
  tilexy_to_quadkey 10 486 332 = lit "0313102310".
Proof. split; vm_compute; reflexivity. Qed.
