(* C19 (continuation) — the pattern-selecting access paths: SCAN / SEARCH with any number of
   MATCH patterns, ascending and descending, IDS and COUNT (Model/CollSel.v = Model/Collection.v
   under the walks of Model/GlobSel.v, which C12 shares).  Every retrievable object is found
   through every such path that should reach it, once, and the COUNT forms equal the recomputed
   number.  Only property theorems, each closed by a lemma of Proofs/CollSelProofs.v.

   Hypothesis ff_free (no pattern whose literal prefix ends in byte 0xFF) excludes C12's known
   finding about glob.Parse's upper limit; it is the hypothesis of Props/C12sel.v too. *)
From T38 Require Import Base.Bytes Model.Float32 Model.Glob Proofs.GlobProofs.
From T38 Require Import Model.Collection Proofs.CollectionProofs Model.GlobSel Proofs.GlobSelProofs.
From T38 Require Import Model.CollSel Proofs.CollSelProofs.
Import ListNotations.
Open Scope N_scope.

(* SCAN key MATCH p1 .. MATCH pn [DESC] LIMIT lim IDS (lim above the number of objects, so that LIMIT
   does not cut; C11 has paging): the reply lists exactly the retrievable objects (what Get returns)
   whose id matches one of the patterns, in id order (reversed for DESC), each once; the COUNT form
   with LIMIT limit returns their number, capped by the limit — whether it is answered from the
   counter (no pattern / "*") or by the counting iteration (pushObject stopping at LIMIT). *)
Theorem c19_scan_paths_reach : forall c globs desc lim, Wf c -> ff_free globs ->
  N.of_nat (length (scan_ids c)) < lim ->
  let reached := coll_scan_ids globs desc c lim in
  reached = map o_id (filter (scan_hit globs) (if desc then rev (scan_ids c) else scan_ids c)) /\
  (forall id, In id reached <-> exists o, cget c id = Some o /\ glob_test globs id = true) /\
  NoDup reached /\
  (forall limit, 1 <= limit -> coll_scan_count globs desc c limit =
                 N.min limit (N.of_nat (length (filter (scan_hit globs) (scan_ids c))))).
Proof. exact coll_scan_reach. Qed.
Print Assumptions c19_scan_paths_reach.

(* SEARCH key MATCH p1 .. MATCH pn [DESC]: exactly the retrievable non-spatial objects whose string
   value matches one of the patterns, in (value, id) order (reversed for DESC), each once; COUNT =
   their number recomputed from the retrievable objects (scan_ids = what Get returns, c19_paths_agree). *)
Theorem c19_search_paths_reach : forall c globs desc lim, Wf c -> ff_free globs ->
  N.of_nat (length (search_values c)) < lim ->
  let reached := coll_search_ids globs desc c lim in
  reached = map o_id (filter (value_hit globs) (if desc then rev (search_values c) else search_values c)) /\
  (forall id, In id reached <->
     exists o, cget c id = Some o /\ o_spatial o = false /\ glob_test globs (o_str o) = true) /\
  NoDup reached /\
  (forall limit, 1 <= limit -> coll_search_count globs desc c limit =
                 N.min limit (N.of_nat (length (filter (search_hit globs) (scan_ids c))))).
Proof. exact coll_search_reach. Qed.
Print Assumptions c19_search_paths_reach.

(* Hence after every history of Set / Delete, for every pattern set and both directions. *)
Theorem c19_sel_paths_any_history : forall ops globs desc lim, ff_free globs ->
  let c := run ops in
  N.of_nat (length (scan_ids c)) < lim ->
  (forall id, In id (coll_scan_ids globs desc c lim) <-> exists o, cget c id = Some o /\ glob_test globs id = true) /\
  (forall id, In id (coll_search_ids globs desc c lim) <->
     exists o, cget c id = Some o /\ o_spatial o = false /\ glob_test globs (o_str o) = true) /\
  NoDup (coll_scan_ids globs desc c lim) /\ NoDup (coll_search_ids globs desc c lim) /\
  (forall limit, 1 <= limit ->
     coll_scan_count globs desc c limit = N.min limit (N.of_nat (length (coll_scan_ids globs desc c lim)))) /\
  (forall limit, 1 <= limit ->
     coll_search_count globs desc c limit = N.min limit (N.of_nat (length (coll_search_ids globs desc c lim)))).
Proof. exact sel_paths_any_history. Qed.
Print Assumptions c19_sel_paths_any_history.

(* ASC and DESC are the same access path walked in opposite directions. *)
Theorem c19_sel_desc_reverses : forall c globs lim, Wf c -> ff_free globs ->
  N.of_nat (length (scan_ids c)) < lim ->
  coll_scan_ids globs true c lim = rev (coll_scan_ids globs false c lim) /\
  coll_search_ids globs true c lim = rev (coll_search_ids globs false c lim).
Proof. exact sel_desc_reverses. Qed.
Print Assumptions c19_sel_desc_reverses.

(* non-vacuity: strings, a point and an empty geometry under ids with different prefixes; two
   patterns with different literal prefixes; DESC has to walk down to the lower end of the lowest
   pattern (limits ("d", "`") for ids, ("y", "l") for values) *)
Example c19_sel_nonvacuous :
  let s (id v : bytes) := Obj id false true 0 1 v 0 (rect64_of_bits 0 0 0 0) in
  let a1 := [97; 49] in let a2 := [97; 50] in let b1 := [98; 49] in let c1 := [99; 49] in let c2 := [99; 50] in
  let c := run [OSet (s a1 [120; 49]); OSet (s a2 [109; 49]); OSet (s c1 [120; 50]);
                OSet (Obj b1 true false 1 17 [] 0 (rect64_of_bits 0 0 0 0));
                OSet (Obj c2 true true 0 1 [] 0 (rect64_of_bits 0 0 0 0)); OSet (s [100; 49] [113])] in
  let globs := [[97; STAR]; [99; STAR]] in
  ff_free globs /\
  coll_scan_ids globs false c 100 = [a1; a2; c1; c2] /\ coll_scan_ids globs true c 100 = [c2; c1; a2; a1] /\
  coll_scan_count globs true c 100 = 4 /\
  coll_search_ids [[109; STAR]; [120; STAR]] true c 100 = [c1; a1; a2] /\
  coll_search_count [[109; STAR]; [120; STAR]] true c 100 = 3 /\
  coll_search_count [] true c 100 = 4 /\ coll_scan_count [[STAR]] false c 2 = 2 /\
  coll_scan_count globs false c 3 = 3.
Proof.
  cbv zeta. split; [|vm_compute; repeat split].
  intros p [<-|[<-|[]]]; vm_compute; reflexivity.
Qed.
