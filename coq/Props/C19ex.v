(* C19 (continuation) — the expiry access path for every deadline in Z, negative ones included
   (SET ... EX accepts any float: EX -2000000000 gives a deadline before 1970; Expires() = 0 means
   "no deadline", every other value — either sign — is indexed by setFill and must be removed by
   Delete, which tests prev.Expires() != 0).  Only property theorems, each closed by a lemma of
   Proofs/CollExpiryProofs.v; the objects of Model/Collection.v carry o_ex : Z without any sign
   restriction, and Wf's expiry clause is in_expires o = negb (o_ex o =? 0). *)
From T38 Require Import Base.Bytes Model.Float32 Model.Collection Proofs.CollectionProofs Proofs.CollExpiryProofs.
Import ListNotations.
Local Open Scope Z_scope.

(* Delete id removes exactly id's entry from the expiry path, whatever the deleted deadline *)
Theorem c19_delete_expiry_path : forall c id, Wf c ->
  forall o, In o (scan_expires (cdelete c id)) <-> (In o (scan_expires c) /\ o_id o <> id).
Proof. exact delete_expiry_path. Qed.
Print Assumptions c19_delete_expiry_path.

(* Set o: the expiry path reaches o's id iff o itself carries a deadline; nothing stored earlier
   under that id survives in it *)
Theorem c19_set_expiry_path : forall c o, Wf c ->
  forall x, In x (scan_expires (cset c o)) <-> ((x = o /\ o_ex o <> 0) \/ (In x (scan_expires c) /\ o_id x <> o_id o)).
Proof. exact set_expiry_path. Qed.
Print Assumptions c19_set_expiry_path.

(* hence an object stored without a deadline is out of the expiry sweep's reach *)
Theorem c19_no_deadline_not_swept : forall c o, Wf c -> o_ex o = 0 ->
  ~ In (o_id o) (map o_id (scan_expires (cset c o))).
Proof. exact set_without_deadline_unreachable. Qed.
Print Assumptions c19_no_deadline_not_swept.

(* after every history the expiry path yields exactly the retrievable objects with a deadline <> 0 *)
Theorem c19_expiry_path_any_history : forall ops o,
  In o (scan_expires (run ops)) <-> (cget (run ops) (o_id o) = Some o /\ o_ex o <> 0).
Proof. exact expiry_path_any_history. Qed.
Print Assumptions c19_expiry_path_any_history.

(* non-vacuity: a string with a NEGATIVE deadline is indexed, the sweep's Delete takes it out of the
   index, and the same id stored again without a deadline is not reachable through the expiry path *)
Example c19_ex_nonvacuous :
  let neg := Obj [97%N] false true 0 2 [120%N] (-2000000000000000000) (rect64_of_bits 0 0 0 0) in
  let other := Obj [98%N] false true 0 2 [121%N] 7 (rect64_of_bits 0 0 0 0) in
  let again := Obj [97%N] false true 0 2 [122%N] 0 (rect64_of_bits 0 0 0 0) in
  map o_id (scan_expires (run [OSet other; OSet neg])) = [[97%N]; [98%N]] /\
  map o_id (scan_expires (run [OSet other; OSet neg; ODel [97%N]])) = [[98%N]] /\
  map o_id (scan_expires (run [OSet other; OSet neg; ODel [97%N]; OSet again])) = [[98%N]] /\
  cget (run [OSet other; OSet neg; ODel [97%N]; OSet again]) [97%N] = Some again.
Proof. vm_compute. repeat split. Qed.
