(* C19 (continuation) — SCAN COUNT / SEARCH COUNT with CURSOR and LIMIT: the counter shortcut
   (cmdScan / cmdSearch, no filter: Model/CollSel.v coll_*_count_at = Model/GlobSel.v shortcut_count,
   subtract the cursor first, clamp to LIMIT second) equals the value recomputed from the retrievable
   objects and the number of ids the IDS form of the same query lists (C11's Model/Cursor.v page).
   Only property theorems, each closed by a lemma of Proofs/CollCountProofs.v. *)
From T38 Require Import Base.Bytes Model.Float32 Model.Collection Proofs.CollectionProofs Model.GlobSel Model.CollSel
  Proofs.CollCountProofs.
From T38 Require Model.Cursor.
Import ListNotations.
Open Scope N_scope.

(* COUNT = min(max(n - CURSOR, 0), LIMIT), n = number of retrievable objects (SCAN) resp. of
   retrievable string objects (SEARCH); N's subtraction is truncated at 0 *)
Theorem c19_count_cursor_limit : forall c cursor limit, Wf c ->
  coll_scan_count_at c cursor limit = N.min limit (N.of_nat (length (scan_ids c)) - cursor) /\
  coll_search_count_at c cursor limit =
    N.min limit (N.of_nat (length (filter (fun o => negb (o_spatial o)) (scan_ids c))) - cursor).
Proof. exact count_at_spec. Qed.
Print Assumptions c19_count_cursor_limit.

(* ... = the number of ids SCAN / SEARCH key CURSOR c LIMIT l [DESC] IDS returns *)
Theorem c19_count_equals_ids_page : forall c (desc : bool) cursor limit, Wf c -> 1 <= limit ->
  let ids := if desc then rev (scan_ids c) else scan_ids c in
  let vals := if desc then rev (search_values c) else search_values c in
  coll_scan_count_at c cursor limit =
    N.of_nat (length (fst (Cursor.page (fun _ => true) (fun _ => false) ids cursor limit))) /\
  coll_search_count_at c cursor limit =
    N.of_nat (length (fst (Cursor.page (fun _ => true) (fun _ => false) vals cursor limit))).
Proof. exact count_at_is_page. Qed.
Print Assumptions c19_count_equals_ids_page.

(* non-vacuity: 10 strings and a point, CURSOR 3 LIMIT 5 -> 5 (not min(10,5) - 3 = 2); cursor beyond
   the end -> 0 *)
Example c19_cur_nonvacuous :
  let s (i : N) := OSet (Obj [97; 48 + i] false true 0 1 [120; 48 + i] 0 (rect64_of_bits 0 0 0 0)) in
  let c := run (OSet (Obj [112] true false 1 17 [] 0 (rect64_of_bits 0 0 0 0)) :: map s [0; 1; 2; 3; 4; 5; 6; 7; 8; 9]) in
  coll_search_count_at c 3 5 = 5 /\ coll_scan_count_at c 3 5 = 5 /\ coll_search_count_at c 8 5 = 2 /\
  coll_scan_count_at c 8 5 = 3 /\ coll_search_count_at c 10 5 = 0 /\ coll_search_count_at c 0 100 = 10 /\
  coll_scan_count_at c 0 100 = 11.
Proof. vm_compute. repeat split. Qed.
