(* C08 — A write is handed to the log file before its acknowledgement is sent.
   Only the property theorems; each is closed by a lemma of Proofs/PrewriteProofs.v.
   v_fixed is the statement order /repo's working tree has after proposed_fixes/C08-prewrite-order.diff;
   harness/cmd/c08 re-derives the order from netServe's AST on every run and reports a
   correspondence failure when it is not v_fixed. *)
From Coq Require Import List NArith.
From T38 Require Import Model.Prewrite Proofs.PrewriteProofs.
Import ListNotations.

(* For any number of connections and background flushers, any programs (batches of write commands,
   read-only batches, batches that end by going live) and any schedule of the micro-steps: in the
   state reached, every command whose reply has been written to a socket is in the file.  Schedules
   are prefix-closed, so this is every reachable state, i.e. every kill instant. *)
Theorem c08_acked_flushed : forall progs sched c,
  In c (acked (run_sched v_fixed progs sched)) -> In c (file (run_sched v_fixed progs sched)).
Proof. exact acked_flushed. Qed.
Print Assumptions c08_acked_flushed.

(* ... and it stays there whatever runs afterwards (the file is append-only): a crash after any
   later step loses only unacknowledged commands. *)
Theorem c08_acked_survives : forall progs sched more c,
  In c (acked (run_sched v_fixed progs sched)) ->
  In c (file (run_sched v_fixed progs (sched ++ more))).
Proof. exact acked_survives. Qed.
Print Assumptions c08_acked_survives.

(* Supporting invariant of DESIGN.md: a non-empty buffer is always announced by the flag.  It holds
   at every reachable state without lock-held exceptions, because writeAOF sets the flag before it
   appends and the repaired pre-write clears it after the flush inside the same critical section. *)
Theorem c08_dirty_covers_buf : forall progs sched,
  buf (run_sched v_fixed progs sched) <> [] -> dirty (run_sched v_fixed progs sched) = true.
Proof. exact dirty_covers_buf. Qed.
Print Assumptions c08_dirty_covers_buf.

(* The order of the pinned commit (flag cleared after the unlock) violates the property: finding F13.
   Witness: A logs and flushes, C logs, A clears the flag, C reads false and acknowledges. *)
Theorem c08_refuted :
  exists progs sched c,
    In c (acked (run_sched (mkVariant false true false true true false) progs sched)) /\
    ~ In c (file (run_sched (mkVariant false true false true true false) progs sched)).
Proof. exact store_after_unlock_refuted. Qed.
Print Assumptions c08_refuted.

(* Second defect of the pinned commit (finding F13b): the goingLive branch of netServe writes
   client.out without the pre-write; one connection suffices (SET ... and SUBSCRIBE in one packet). *)
Theorem c08_detach_refuted :
  exists progs sched c,
    In c (acked (run_sched (mkVariant true false false true true false) progs sched)) /\
    ~ In c (file (run_sched (mkVariant true false false true true false) progs sched)).
Proof. exact detach_no_prewrite_refuted. Qed.
Print Assumptions c08_detach_refuted.

(* Two other statement orders the source check recognises (neither is tile38's; each was offered as a
   seeded change): the background flusher consuming the flag before it holds the lock ... *)
Theorem c08_flusher_swap_refuted :
  exists progs sched c,
    In c (acked (run_sched (mkVariant true true true true true false) progs sched)) /\
    ~ In c (file (run_sched (mkVariant true true true true true false) progs sched)).
Proof. exact flusher_swap_refuted. Qed.
Print Assumptions c08_flusher_swap_refuted.

(* ... and the flag raised by handleInputCommand after writeAOF instead of inside writeAOF: a write made
   by a Lua script (scripts.go calls writeAOF itself) is acknowledged with the flag clear. *)
Theorem c08_flag_in_dispatcher_refuted :
  exists progs sched c,
    In c (acked (run_sched (mkVariant true true false false true false) progs sched)) /\
    ~ In c (file (run_sched (mkVariant true true false false true false) progs sched)).
Proof. exact flag_in_dispatcher_refuted. Qed.
Print Assumptions c08_flag_in_dispatcher_refuted.

(* ... and the goingLive copy of the pre-write releasing the lock right after the flush and clearing
   the flag afterwards (F13 again, in the other copy): [SET][SUBSCRIBE] in one packet on A, a write of C
   between A's unlock and A's clear. *)
Theorem c08_detach_store_unlocked_refuted :
  exists progs sched c,
    In c (acked (run_sched (mkVariant true true false true false false) progs sched)) /\
    ~ In c (file (run_sched (mkVariant true true false true false false) progs sched)).
Proof. exact detach_store_unlocked_refuted. Qed.
Print Assumptions c08_detach_store_unlocked_refuted.

(* ... and the background flusher clearing the flag unconditionally at the start of every round, before
   it takes the lock: after one (empty) round, B logs while the flusher sleeps; the next round's store
   clears the flag over B's buffered command; B tests the flag, skips its flush and replies. *)
Theorem c08_flusher_store_refuted :
  exists progs sched c,
    In c (acked (run_sched (mkVariant true true false true true true) progs sched)) /\
    ~ In c (file (run_sched (mkVariant true true false true true true) progs sched)).
Proof. exact flusher_store_refuted. Qed.
Print Assumptions c08_flusher_store_refuted.

(* non-vacuity: a schedule of the repaired order in which both commands are acknowledged (and flushed) *)
Example c08_nonvacuous :
  let st := run_sched v_fixed f13_progs ([0;0;0;0;0;0;0;0;0;0;0; 1;1;1;1;1;1;1;1;1;1;1]%nat) in
  acked st = [1%N; 2%N] /\ file st = [1%N; 2%N] /\ acked_in_file st = true.
Proof. vm_compute. auto. Qed.

(* the refutation schedule run against the repaired order: C is made to flush before it replies *)
Example c08_f13_schedule_repaired :
  let st := run_sched v_fixed f13_progs (f13_sched ++ [1;1;1;1;1;1]%nat) in
  acked st = [2%N] /\ file st = [1%N; 2%N].
Proof. vm_compute. auto. Qed.
