(* C03 — restart reproduces the acknowledged state: start-up must not STOP on a log the server wrote
   itself. loadAOF stops on the first replayed command whose error commandErrIsFatal calls fatal
   (Model/ReplayTol.v; the classification is regenerated from the source, Gen/ReplayTol.v).
   Only theorems, each closed by a lemma of Proofs/ReplayTolProofs.v / Proofs/KsReplayTol.v. *)
From Coq Require Import String List Bool.
From T38 Require Import Base.Bytes Base.SMap Model.Spec Model.Keyspace Proofs.KsInv Proofs.KsProgram Proofs.KsReplay.
From T38 Require Import Gen.ReplayTol Model.ReplayTol Proofs.ReplayTolProofs Proofs.KsReplayTol.
From T38 Require Model.Replay.
Import ListNotations.

(* generic (any dataset, command semantics, error type, classification, invariant): if every error a
   command LOGGED IN SOME STATE can return IN ANY STATE is classified harmless, the load of any list
   of logged records, from any state, never stops and computes the plain replay *)
Theorem c03tol_load_total : forall (S err : Type) (exec : S -> Replay.cmd -> S * bool * option err)
  (fatal : err -> bool) (good : S -> Prop),
  (forall s c, good s -> good (xstate S err exec s c)) ->
  (forall c, logged S err exec good c -> forall s', good s' -> harmless err fatal (xerr S err exec s' c) = true) ->
  forall l, Forall (logged S err exec good) l -> forall s0, good s0 ->
  load S err exec fatal l s0 = inl (apply_all S err exec l s0).
Proof. exact load_total. Qed.
Print Assumptions c03tol_load_total.

(* ... in particular the file AOFSHRINK leaves: a snapshot followed by the log of the commands run
   from the state the server was in when the rewrite started, loaded from any state *)
Theorem c03tol_load_shrunk_total : forall (S err : Type) (exec : S -> Replay.cmd -> S * bool * option err)
  (fatal : err -> bool) (good : S -> Prop),
  (forall s c, good s -> good (xstate S err exec s c)) ->
  (forall c, logged S err exec good c -> forall s', good s' -> harmless err fatal (xerr S err exec s' c) = true) ->
  forall snap p smid s0, Forall (logged S err exec good) snap -> good smid -> good s0 ->
  load S err exec fatal (snap ++ Replay.logof S (exec2 S err exec) p smid) s0 =
  inl (apply_all S err exec (snap ++ Replay.logof S (exec2 S err exec) p smid) s0).
Proof. exact load_shrunk_total. Qed.
Print Assumptions c03tol_load_shrunk_total.

(* conversely a record whose error is classified fatal stops the load: the server does not start *)
Theorem c03tol_load_stops : forall (S err : Type) (exec : S -> Replay.cmd -> S * bool * option err)
  (fatal : err -> bool) l1 c l2 s0 s1 x,
  load S err exec fatal l1 s0 = inl s1 -> xerr S err exec s1 c = Some x -> fatal x = true ->
  load S err exec fatal (l1 ++ c :: l2) s0 = inr x.
Proof. exact load_stops. Qed.
Print Assumptions c03tol_load_stops.

(* the classification is the source's: the model's error texts are the texts of the Go sentinels
   errKeyNotFound / errIDNotFound / errKeyHasHooksSet / errKeyHasChannelsSet, all four tolerated, any
   error that is not a sentinel is fatal, and loadAOF decides with commandErrIsFatal alone *)
Theorem c03tol_table_tied :
  In ("errKeyNotFound", "key not found", false)%string replay_err_table /\ bs "key not found" = err_key_not_found /\
  In ("errIDNotFound", "id not found", false)%string replay_err_table /\ bs "id not found" = err_id_not_found /\
  In ("errKeyHasHooksSet", "key has hooks set", false)%string replay_err_table /\ bs "key has hooks set" = err_key_has_hooks /\
  In ("errKeyHasChannelsSet", "key has channels set", false)%string replay_err_table /\
  bs "key has channels set" = err_key_has_chans /\
  replay_err_other_fatal = true /\ load_consults_table = true.
Proof. exact table_tied. Qed.
Print Assumptions c03tol_table_tied.

(* keyspace model, every oracle, every environment: a write handler other than JSET / JDEL never
   panics and returns, in every state, no error or one the source's commandErrIsFatal tolerates *)
Theorem c03tol_ks_write_errors_tolerated : forall O e s q,
  req_writes q = true -> req_json q = false ->
  exists s1 r1 u1, run_req O true e s q = Some (s1, r1, u1) /\ tol (err_of r1).
Proof. exact write_req_errors_tolerated. Qed.
Print Assumptions c03tol_ks_write_errors_tolerated.

(* hence: a command line that SOME state logged returns in EVERY state a harmless error or none
   (partial: JSET / JDEL excepted, see c03tol_ks_jset_as_sent_refuted / c03tol_json_records_rewritten) *)
Theorem c03tol_ks_logged_errors_tolerated_partial : forall O e c,
  logged state bytes (ks_exec3 O e) inv c -> plain_cmd O e c ->
  forall s', harmless bytes fatal_msg (xerr state bytes (ks_exec3 O e) s' c) = true.
Proof. exact ks_logged_errors_tolerated. Qed.
Print Assumptions c03tol_ks_logged_errors_tolerated_partial.

(* start-up never stops on records a live server can have written, in any order, from any state *)
Theorem c03tol_ks_load_total_partial : forall O e l,
  Forall (fun c => logged state bytes (ks_exec3 O e) inv c /\ plain_cmd O e c) l ->
  forall s0, inv s0 ->
  load state bytes (ks_exec3 O e) fatal_msg l s0 = inl (apply_all state bytes (ks_exec3 O e) l s0).
Proof. exact ks_load_total. Qed.
Print Assumptions c03tol_ks_load_total_partial.

(* the rewritten log — snapshot ++ commands accepted since the rewrite started — loads, and to the
   plain replay of Props/C03ks.v *)
Theorem c03tol_ks_load_shrunk_total_partial : forall O e snap p smid,
  Forall (fun c => logged state bytes (ks_exec3 O e) inv c /\ plain_cmd O e c) snap -> inv smid ->
  Forall (plain_cmd O e) (Replay.logof state (ks_exec O e) p smid) ->
  load state bytes (ks_exec3 O e) fatal_msg (snap ++ Replay.logof state (ks_exec O e) p smid) [] =
  inl (Replay.replay state (ks_exec O e) (snap ++ Replay.logof state (ks_exec O e) p smid) []).
Proof. exact ks_load_shrunk_total. Qed.
Print Assumptions c03tol_ks_load_shrunk_total_partial.

(* "id not found" MUST be tolerated: for every classification that calls it fatal, the file left by
   { SET k a; SET k b; AOFSHRINK parked; DEL k a ERRON404 (or FSET k a speed 1; DEL k a) acknowledged;
   rewrite copies k } does not load although every record was accepted by the live server *)
Theorem c03tol_id_not_found_needed : forall fatal : bytes -> bool,
  fatal err_id_not_found = true ->
  Replay.logof state (ks_exec toy_oracle te) [c_del404] s_before = [c_del404] /\
  Replay.logof state (ks_exec toy_oracle te) [c_fset; c_del] s_before = [c_fset; c_del] /\
  load state bytes (ks_exec3 toy_oracle te) fatal ([c_set_b] ++ [c_del404]) [] = inr err_id_not_found /\
  load state bytes (ks_exec3 toy_oracle te) fatal ([c_set_b] ++ [c_fset; c_del]) [] = inr err_id_not_found.
Proof. exact id_not_found_needed. Qed.
Print Assumptions c03tol_id_not_found_needed.

(* the same for "key not found" (DEL k a ERRON404, then DROP k, before the rewrite lists the keys) *)
Theorem c03tol_key_not_found_needed : forall fatal : bytes -> bool,
  fatal err_key_not_found = true ->
  Replay.logof state (ks_exec toy_oracle te) [c_del404; c_drop] s_before = [c_del404; c_drop] /\
  load state bytes (ks_exec3 toy_oracle te) fatal ([] ++ [c_del404; c_drop]) [] = inr err_key_not_found.
Proof. exact key_not_found_needed. Qed.
Print Assumptions c03tol_key_not_found_needed.

(* JSET / JDEL records AS SENT would break the obligation: { AOFSHRINK parked; JSET k a speed 1;
   SET k a STRING [1]; rewrite copies k } — every record accepted, and the file does not load because
   sjson's error on the array is none of the sentinels. (The log of the tree before repair 2097490.) *)
Theorem c03tol_ks_jset_as_sent_refuted :
  Replay.logof state (ks_exec arr_oracle te) [c_jset; c_set_arr] [] = [c_jset; c_set_arr] /\
  Replay.logof state (ks_exec arr_oracle te) [c_set_arr] [] = [c_set_arr] /\
  load state bytes (ks_exec3 arr_oracle te) fatal_msg ([c_set_arr] ++ [c_jset; c_set_arr]) [] = inr err_sjson_array.
Proof. exact jset_as_sent_replay_error_fatal. Qed.
Print Assumptions c03tol_ks_jset_as_sent_refuted.

(* ... which is why writeAOF rewrites them: every command line that leads to a JSET / JDEL request has
   a command name whose shrink-log record is a SET of the resulting document (list regenerated from
   writeAOF), so the tail of a rewritten file satisfies plain_cmd *)
Theorem c03tol_json_records_rewritten : forall O e args cn w q,
  dispatch O e args = DReq cn w q -> req_json q = true -> rewritten_name cn = true.
Proof. exact json_records_rewritten. Qed.
Print Assumptions c03tol_json_records_rewritten.

(* non-vacuity: the hypotheses of c03tol_ks_load_shrunk_total_partial hold for the two witness files,
   which load to the acknowledged state under the current classification *)
Example c03tol_nonvacuous :
  load state bytes (ks_exec3 toy_oracle te) fatal_msg ([c_set_b] ++ [c_del404]) [] =
    inl (Replay.run state (ks_exec toy_oracle te) [c_del404] s_before) /\
  load state bytes (ks_exec3 toy_oracle te) fatal_msg ([c_set_b] ++ [c_fset; c_del]) [] =
    inl (Replay.run state (ks_exec toy_oracle te) [c_fset; c_del] s_before).
Proof. exact witnesses_load_now. Qed.
