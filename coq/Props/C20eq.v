(* C20, continued — every re-definition of a roaming fence takes effect: Hook.Equals, which decides
   cmdSetHook's early "nothing to do" return (the input equal_prev of the registry model), is
   byte-identity of the two definitions.
   Only the property theorems, each closed by a lemma of Proofs/HookDefProofs.v.
   Model: Model/HookDef.v; coq/Gen/HookEquals.v (equals_checks) is the list of Equals' tests - compared
   field and comparison used - as t38x reads it from hooks.go on every run. *)
From Coq Require Import List NArith ZArith Bool.
From T38 Require Import Base.Bytes Model.HookDef Gen.HookEquals Proofs.HookDefProofs.
Import ListNotations.

(* equal_prev = true iff the stored and the new definition are byte-identical (key, name, endpoints,
   metas, expiry, every message argument) *)
Theorem c20_equals_is_identity : forall a b, hook_equals_by equals_checks a b = true <-> a = b.
Proof. exact equals_exact. Qed.
Print Assumptions c20_equals_is_identity.

(* after an accepted SETHOOK / SETCHAN (reply 1 or 0) the definition in force under the name is the one
   just sent, byte for byte: a re-definition that changes pattern, key, radius or any other argument -
   be it only in letter case - takes effect *)
Theorem c20_definition_in_force : forall ds chan d,
  snd (def_sethook equals_checks ds chan d) <> (-1)%Z ->
  def_get (hd_name d) (fst (def_sethook equals_checks ds chan d)) = Some (chan, d).
Proof. exact definition_in_force. Qed.
Print Assumptions c20_definition_in_force.

(* the reply is 0 exactly for an identical re-issue *)
Theorem c20_reply_zero_iff_identical : forall ds chan p d,
  def_get (hd_name d) ds = Some (chan, p) ->
  (snd (def_sethook equals_checks ds chan d) = 0%Z <-> p = d).
Proof. exact reply_zero_iff_identical. Qed.
Print Assumptions c20_reply_zero_iff_identical.

(* with strings.EqualFold on the message arguments:  ... ROAM fleet T* 500  then  ... ROAM fleet t* 500
   answers 0 and the old pattern stays in force *)
Theorem c20_equals_fold_refuted :
  exists ds chan d,
    snd (def_sethook equals_checks_fold_args ds chan d) = 0%Z /\
    def_get (hd_name d) (fst (def_sethook equals_checks_fold_args ds chan d)) <> Some (chan, d).
Proof. exact equals_fold_refuted. Qed.
Print Assumptions c20_equals_fold_refuted.

Example c20_equals_example :
  hook_equals_by equals_checks d_upper d_lower = false /\ hook_equals_by equals_checks d_upper d_upper = true /\
  snd (def_sethook equals_checks [(true, d_upper)] true d_lower) = 1%Z /\
  snd (def_sethook equals_checks [(true, d_upper)] false d_lower) = (-1)%Z.
Proof. exact equals_source_example. Qed.
