(* C20 — Roaming geofences report exactly the neighbours inside the radius.
   Only the property theorems, each closed by a lemma of Proofs/RoamProofs.v.

   G, dist, in_rect are the opaque geometry (geojson Distance, "rectangle of o intersects
   geo.RectFromCenter(centre of c, r)").  Hr is the trusted, sampled hypothesis that the search
   rectangle contains the circle; it is only assumed for radii >= rmin, because
   geo.RectFromCenter collapses to the centre point below about 0.28 m (open finding
   C20-tiny-radius, c20_tiny_radius_refuted).  col is the roam collection in the order the
   R-tree search visits it (any order), with unique ids; old is the previous version of the
   moved object. *)
From Coq Require Import List ZArith Sorting.Sorted.
From T38 Require Import Base.Bytes Model.Glob Model.Roam Proofs.RoamProofs.
Import ListNotations.

Section C20.
  Variable G : Type.
  Variable dist : G -> G -> Z.
  Variable in_rect : G -> Z -> G -> bool.
  Variable rmin : Z.
  Hypothesis Hr : forall c r o, (rmin <= r)%Z -> (dist c o <= r)%Z -> in_rect c r o = true.

  (* the transcribed loop always terminates within its fuel *)
  Theorem c20_total : forall col sw obj old,
    NoDup (map o_id col) ->
    exists near far, fence_match_roam G dist in_rect col sw obj old = RoamDone near far.
  Proof. exact (roam_total G dist in_rect). Qed.

  (* partial: for radii >= rmin (what is missing: radii below rmin, where Hr is false).
     "nearby" = exactly the other pattern-matching objects within the radius of the new position,
     minus, under NODWELL, those within the radius of the previous position; metres = dist new o *)
  Theorem c20_nearby_exact_partial : forall col sw obj old near far,
    (rmin <= rs_meters sw)%Z ->
    NoDup (map o_id col) -> same_id G obj old ->
    fence_match_roam G dist in_rect col sw obj old = RoamDone near far ->
    forall m, In m near <->
      exists o, In o col /\
        (o_id o <> o_id obj /\ (dist (o_geo obj) (o_geo o) <= rs_meters sw)%Z /\ id_match sw (o_id o) = true) /\
        (rs_nodwell sw = true -> forall ob, old = Some ob -> ~ (dist (o_geo ob) (o_geo o) <= rs_meters sw)%Z) /\
        m = {| m_id := o_id o; m_geo := o_geo o; m_meters := dist (o_geo obj) (o_geo o) |}.
  Proof. exact (roam_nearby_exact G dist in_rect rmin Hr). Qed.

  (* "faraway" = exactly those within the radius of the previous position and not of the new one;
     metres = distance to the new position *)
  Theorem c20_faraway_exact_partial : forall col sw obj old near far,
    (rmin <= rs_meters sw)%Z ->
    NoDup (map o_id col) -> same_id G obj old ->
    fence_match_roam G dist in_rect col sw obj old = RoamDone near far ->
    forall m, In m far <->
      exists o ob, old = Some ob /\ In o col /\
        (o_id o <> o_id obj /\ (dist (o_geo ob) (o_geo o) <= rs_meters sw)%Z /\ id_match sw (o_id o) = true) /\
        ~ (dist (o_geo obj) (o_geo o) <= rs_meters sw)%Z /\
        m = {| m_id := o_id o; m_geo := o_geo o; m_meters := dist (o_geo o) (o_geo obj) |}.
  Proof. exact (roam_faraway_exact G dist in_rect rmin Hr). Qed.

  (* both lists are ordered by (metres, id) and name every neighbour once *)
  Theorem c20_sorted : forall col sw obj old near far,
    NoDup (map o_id col) ->
    fence_match_roam G dist in_rect col sw obj old = RoamDone near far ->
    StronglySorted (lex_le G) near /\ StronglySorted (lex_le G) far /\
    NoDup (map m_id near) /\ NoDup (map m_id far).
  Proof. exact (roam_sorted G dist in_rect). Qed.
End C20.
Print Assumptions c20_total.
Print Assumptions c20_nearby_exact_partial.
Print Assumptions c20_faraway_exact_partial.
Print Assumptions c20_sorted.

(* extendRoamMessage's floor(meters*1000)/1000, on metres scaled to integer micrometres: the reported
   value (whole millimetres) never exceeds the distance and is less than a millimetre below it; it is
   monotone, so the (metres, id) order of the messages is also the order of the printed values. *)
Theorem c20_meters_rounding : forall d, (0 <= d)%Z ->
  (0 <= round_mm d /\ 1000 * round_mm d <= d < 1000 * round_mm d + 1000)%Z.
Proof. exact round_mm_spec. Qed.
Print Assumptions c20_meters_rounding.

Theorem c20_meters_rounding_monotone : forall a b, (a <= b)%Z -> (round_mm a <= round_mm b)%Z.
Proof. exact round_mm_mono. Qed.
Print Assumptions c20_meters_rounding_monotone.

(* ROAM ... SCAN glob: the "scan" member of a message lists the matched neighbour itself (marked self,
   when it exists) and exactly the other ids of the roam collection matching  neighbour-id ++ glob. *)
Theorem c20_scan_exact : forall ids mid scan s i,
  In (s, i) (scan_ids ids mid scan) <->
  (s = true /\ i = mid /\ In mid ids) \/
  (s = false /\ In i ids /\ i <> mid /\ glob_match (mid ++ scan) i = WTrue).
Proof. exact scan_ids_spec. Qed.
Print Assumptions c20_scan_exact.

(* The pinned tree's radius test (an object measured against itself) reports a neighbour outside
   the radius: finding F8, repaired by proposed_fixes/C20-roam-radius.diff. *)
Theorem c20_pinned_refuted :
  exists m, In m (Plane.nearbys_pinned Plane.col (Plane.sw1000 false) (Plane.mk 97 0 0)) /\
            (m_meters m > rs_meters (Plane.sw1000 false))%Z.
Proof. exact Plane.pinned_reports_outside_radius. Qed.
Print Assumptions c20_pinned_refuted.

(* Open finding C20-tiny-radius: when the search rectangle collapses to the centre point (as
   geo.RectFromCenter does for radii below about 0.28 m) a pattern-matching neighbour within the
   radius is not reported: the restriction to radii >= rmin cannot be dropped.  Real-server
   witness: SETCHAN c NEARBY m FENCE ROAM m * 0.2 ; SET m a POINT 10 10 ; SET m b POINT 10.0000009 10
   (0.10 m apart) -> no message. *)
Theorem c20_tiny_radius_refuted :
  fence_match_roam Plane.P Plane.pdist Plane.prect_degenerate Plane.col_tiny Plane.sw_tiny (Plane.mk 97 0 0) None
    = RoamDone [] [] /\
  In (Plane.mk 98 3 4) Plane.col_tiny /\
  (Plane.pdist (0, 0)%Z (3, 4)%Z <= rs_meters Plane.sw_tiny)%Z /\
  id_match Plane.sw_tiny (Plane.b 98) = true.
Proof. exact Plane.tiny_radius_misses. Qed.
Print Assumptions c20_tiny_radius_refuted.

(* non-vacuity: Hr is satisfiable by a non-trivial geometry (the plane, bounding square of the
   disc), on which the model reports the neighbour inside the disc, drops the one in the corner of
   the square, and reports the one left behind as faraway *)
Example c20_Hr_satisfiable : forall c r o, (0 <= r)%Z -> (Plane.pdist c o <= r)%Z -> Plane.prect c r o = true.
Proof. exact Plane.prect_contains_disc. Qed.
Example c20_nonvacuous :
  NoDup (map o_id Plane.col) /\
  fence_match_roam Plane.P Plane.pdist Plane.prect Plane.col (Plane.sw1000 false)
                   (Plane.mk 97 0 0) (Some (Plane.mk 97 5000 0)) =
  RoamDone [{| m_id := [99%N]; m_geo := (300, 400)%Z; m_meters := 250000%Z |}]
           [{| m_id := [101%N]; m_geo := (5000, 300)%Z; m_meters := 25090000%Z |}].
Proof.
  split; [|exact Plane.repaired_example].
  repeat constructor; cbn; intuition discriminate.
Qed.
