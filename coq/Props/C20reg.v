(* C20, continued — a roaming fence that is listed is evaluated for every SET on its key, after any
   history of hook commands, including re-definitions under the same name.
   Only the property theorems, each closed by a lemma of Proofs/RoamRegProofs.v.

   A NEARBY ... FENCE ROAM fence has no Fence.obj: of the three indexes getQueueCandidates consults
   (hooksOut, hookCross, hookTree) only hooksOut can select it.  The registry model is C05's
   (Model/HookReg.v: reg_sethook, reg_delhook, reg_pdelhook, candidates; invariant registry_inv);
   Model/HookRegOps.v executes cmdSetHook's registry statements as a list, and
   coq/Gen/SetHookOrder.v is that list as t38x reads it from hooks.go on every run.
   Props/C20.v says which messages an evaluated roaming fence produces (fence_match_roam). *)
From Coq Require Import List Bool ZArith.
From T38 Require Import Base.Bytes Model.Fence Model.HookReg Model.HookRegOps Gen.SetHookOrder
  Proofs.FenceRegProofs Proofs.RoamRegProofs.
Import ListNotations.

(* tie to the source: HookReg.reg_sethook is the execution, in source order, of the registry
   statements of cmdSetHook (delete the previous hook of the name, THEN set the new one) *)
Theorem c20_sethook_is_source_order : forall r h e,
  reg_sethook r h e = sethook_by sethook_stmts r h e.
Proof. exact sethook_is_source. Qed.
Print Assumptions c20_sethook_is_source_order.

(* after any history, a hook without Fence.obj (a roaming fence) is a candidate for a write on key k
   exactly when it is listed, fences k, and has no DETECT clause (or one naming "outside") *)
Theorem c20_roam_hook_selected_iff : forall ops h k old new,
  h_area h = None ->
  (In h (candidates (reg_run ops) k old new) <->
   In h (hooks (reg_run ops)) /\ h_key h = k /\ detects (h_detect h) DOutside = true).
Proof. exact roam_hook_selected_iff. Qed.
Print Assumptions c20_roam_hook_selected_iff.

(* re-definition: once an accepted SETHOOK / SETCHAN has (re-)defined a roaming fence - whatever hook
   of that name existed before, with whatever arguments - it is a candidate for every write on its key *)
Theorem c20_roam_redefined_selected : forall ops h old new,
  h_area h = None -> detects (h_detect h) DOutside = true ->
  sethook_stops (reg_run ops) h false = false ->
  In h (candidates (reg_run (ops ++ [RSet h false])) (h_key h) old new).
Proof. exact roam_redefined_selected. Qed.
Print Assumptions c20_roam_redefined_selected.

(* an identical re-issue leaves the registry as it is *)
Theorem c20_roam_reissue_unchanged : forall ops h p,
  get_name (h_name h) (hooks (reg_run ops)) = Some p ->
  reg_run (ops ++ [RSet h true]) = reg_run ops.
Proof. exact roam_reissue_unchanged. Qed.
Print Assumptions c20_roam_reissue_unchanged.

(* what the model driver's "regsel" request computes *)
Theorem c20_selected_iff : forall ops n k old new,
  selected (reg_run ops) n k old new = true <->
  exists h, In h (hooks (reg_run ops)) /\ h_name h = n /\ h_key h = k /\ cand_cond h old new = true.
Proof. exact selected_iff. Qed.
Print Assumptions c20_selected_iff.

(* the order matters: with hooksOut.Delete(prevHook) after hooksOut.Set(hook) a re-defined roaming
   fence is listed and never selected *)
Theorem c20_sethook_late_delete_refuted :
  exists ops h,
    h_area h = None /\ detects (h_detect h) DOutside = true /\
    In h (hooks (reg_run_by sethook_stmts_late_delete ops)) /\
    candidates (reg_run_by sethook_stmts_late_delete ops) (h_key h) (Some r_unit) (Some r_unit) = [].
Proof. exact late_delete_refuted. Qed.
Print Assumptions c20_sethook_late_delete_refuted.

(* the histories of the variant family with the source's list are the model's histories *)
Theorem c20_run_by_source : forall ops, reg_run_by sethook_stmts ops = reg_run ops.
Proof. exact run_by_source. Qed.
Print Assumptions c20_run_by_source.

(* satisfiable: define, re-define (selected), re-define with DETECT inside (not selected), delete *)
Example c20_redefinition_example :
  let ops := [RSet (roam_hook n_fence true k_fleet true) false; RSet (roam_hook n_fence true k_fleet true) false] in
  selected (reg_run ops) n_fence k_fleet (Some r_unit) (Some r_unit) = true /\
  selected (reg_run (ops ++ [RSet (roam_hook n_fence true k_fleet false) false])) n_fence k_fleet (Some r_unit) (Some r_unit) = false /\
  selected (reg_run (ops ++ [RDel n_fence true])) n_fence k_fleet (Some r_unit) (Some r_unit) = false.
Proof. exact source_order_example. Qed.
