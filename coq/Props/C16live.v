(* C16, continued — the connection ACROSS the hand-over to live mode (SUBSCRIBE / PSUBSCRIBE / a live FENCE
   search): replies depend on the bytes sent, not on where the stream was cut, also when the cut falls
   around or inside the commands that follow the mode-switching command.
   Only the property theorems, each closed by a lemma of Proofs/PipelineLiveProofs.v.
   Model: Model/PipelineLive.v (live_run = netServe's loop up to the hand-over, then the live loop on the
   SAME PipelineReader); source facts: Gen/LiveHandover.v (t38x/livehandover.go). *)
From T38 Require Import Base.Bytes Model.Resp Model.Pipeline Model.PipelineLive Model.HandoverFacts
  Proofs.RespProofs Proofs.PanicProofs Proofs.PipelineProofs Proofs.PipelineLiveProofs.
From T38 Require Gen.LiveHandover.
Local Open Scope Z_scope.

(* the source's hand-over keeps the reader: goLive is given the very reader netServe called ReadMessages
   on, every live loop reads from the reader it is given, and no statement of the hand-over block assigns
   the reader as a whole or its carry-over buffer (only the fields rd / wr are re-pointed at the socket) *)
Theorem c16_handover_keeps_reader :
  reader_survives Gen.LiveHandover.handover_read_reader Gen.LiveHandover.handover_golive_reader
    Gen.LiveHandover.handover_assigns Gen.LiveHandover.handover_reader_calls Gen.LiveHandover.live_readers = true.
Proof. exact handover_keeps_reader. Qed.
Print Assumptions c16_handover_keeps_reader.

(* the general statement behind it: segmentation independence across the hand-over, for EVERY classifier of live commands, every chunk list
   (empty chunks, cuts inside the live command, inside the commands after it, k-way) and every hand-over
   that keeps the carry-over buffer: a run in which nothing that was parsed stayed unhandled has the outcome
   the specification reads off the concatenated bytes — the same messages handled in normal mode, the same
   messages handled by the live loop, the same error point, the same leftover. *)
Theorem c16_live_chunking : forall h golive chunks,
  ho_keep_buf h = true -> len (concat chunks) < BIG ->
  acted_all (t38_live_run h golive chunks) = true ->
  t38_live_run h golive chunks = t38_live_spec golive (concat chunks).
Proof. exact t38_live_chunking. Qed.
Print Assumptions c16_live_chunking.

(* the two other facts the model's hand-over is read from: the messages of the hand-over read that follow the
   live command, and that read's error, are handed back to the reader (unreadAfter) and returned by the first
   ReadMessages of the live loop; liveSubscription handles the messages of a read before it acts on its error *)
Theorem c16_handover_keeps_rest :
  rest_kept Gen.LiveHandover.handover_read_reader Gen.LiveHandover.handover_loop_var
    Gen.LiveHandover.handover_reader_method_calls Gen.LiveHandover.reader_methods
    Gen.LiveHandover.readmessages_head Gen.LiveHandover.readmessages_tail = true.
Proof. exact handover_keeps_rest. Qed.
Print Assumptions c16_handover_keeps_rest.

Theorem c16_live_loop_msgs_before_error :
  live_err_after_msgs Gen.LiveHandover.live_subscription_loop = true.
Proof. exact live_loop_msgs_before_error. Qed.
Print Assumptions c16_live_loop_msgs_before_error.

(* FULL segmentation independence across the hand-over for the SOURCE (all three flags of the hand-over computed
   from Gen/LiveHandover.v): for every classifier of live commands and every chunk list the outcome is the
   specification read off the concatenated bytes, hence the outcome of the stream sent in one piece.  No
   excluding hypothesis; streams shorter than 2^62 bytes. *)
Theorem c16_live_chunking_source : forall golive chunks,
  len (concat chunks) < BIG ->
  t38_live_run ho_source golive chunks = t38_live_spec golive (concat chunks) /\
  t38_live_run ho_source golive chunks = t38_live_run ho_source golive [concat chunks].
Proof. exact t38_live_chunking_source. Qed.
Print Assumptions c16_live_chunking_source.

(* the same stated for the explicit flags ho_repaired = (true, true, true) *)
Theorem c16_live_chunking_repaired : forall golive chunks,
  len (concat chunks) < BIG ->
  t38_live_run ho_repaired golive chunks = t38_live_spec golive (concat chunks) /\
  t38_live_run ho_repaired golive chunks = t38_live_run ho_repaired golive [concat chunks].
Proof. exact t38_live_chunking_repaired. Qed.
Print Assumptions c16_live_chunking_repaired.

(* malformed input is contained across the switch too: no chunk sequence crashes the reader or exhausts
   the model's fuel, whatever the hand-over does *)
Theorem c16_live_no_crash : forall h golive chunks,
  t38_live_run h golive chunks <> LCrashed /\ t38_live_run h golive chunks <> LNoFuel.
Proof. exact t38_live_no_crash. Qed.
Print Assumptions c16_live_no_crash.

(* the hypothesis ho_keep_buf is needed: a hand-over that gives the live loop a fresh reader parses the
   rest of a partially received command as a command of its own ("SUBSCRIBE ch\r\nPI" | "NG x\r\n" yields
   the command NG; cut between the two commands it yields PING) *)
Theorem c16_lost_buffer_refuted :
  let h := {| ho_keep_buf := false; ho_pass_rest := false; ho_live_err_keeps := false |} in
  t38_live_run h is_sub [w_sub ++ w_ping1; w_ping2] = LOpen true [m_sub] [m_ng] [] None [] [] /\
  t38_live_run h is_sub [w_sub; w_ping1 ++ w_ping2] = LOpen true [m_sub] [m_ping] [] None [] [] /\
  t38_live_spec is_sub (w_sub ++ w_ping1 ++ w_ping2) = LOpen true [m_sub] [m_ping] [] None [] [].
Proof. exact lost_buffer_refuted. Qed.
Print Assumptions c16_lost_buffer_refuted.

(* the two defects of the hand-over BEFORE the repair (ho_pinned; reproduced on the real server at d289b20,
   docs/notes/C16.md, repaired by proposed_fixes/C16-live-handover-drops-rest and C16-live-error-drops-read):
   "SUBSCRIBE ch\r\nPING x\r\n" in ONE read never answers PING; the same bytes cut after SUBSCRIBE or inside
   PING do.  In live mode "PING x\r\n*x\r\n" in one read closes without answering PING; in two reads PING is
   answered first. *)
Theorem c16_live_drop_pinned_refuted :
  (t38_live_run ho_pinned is_sub [w_sub ++ w_ping1 ++ w_ping2] = LOpen true [m_sub] [] [m_ping] None [] [] /\
   t38_live_run ho_pinned is_sub [w_sub; w_ping1 ++ w_ping2] = LOpen true [m_sub] [m_ping] [] None [] [] /\
   t38_live_run ho_pinned is_sub [w_sub ++ w_ping1; w_ping2] = LOpen true [m_sub] [m_ping] [] None [] []) /\
  (t38_live_run ho_pinned is_sub [w_sub; w_ping1 ++ w_ping2 ++ w_bad] = LClosed true [m_sub] [] [] None [m_ping] (EParse EMultiBulk) /\
   t38_live_run ho_pinned is_sub [w_sub; w_ping1 ++ w_ping2; w_bad] = LClosed true [m_sub] [m_ping] [] None [] (EParse EMultiBulk)).
Proof. exact (conj pinned_drops_rest pinned_live_error_drops). Qed.
Print Assumptions c16_live_drop_pinned_refuted.

(* non-vacuity: a run of the source model through a hand-over in which nothing stays unhandled, cut inside
   the command after SUBSCRIBE and byte-wise inside SUBSCRIBE itself *)
Example c16_live_nonvacuous :
  acted_all (t38_live_run ho_source is_sub [w_sub ++ w_ping1; w_ping2]) = true /\
  t38_live_run ho_source is_sub [w_sub ++ w_ping1; w_ping2] = LOpen true [m_sub] [m_ping] [] None [] [] /\
  t38_live_run ho_source is_sub [[83;85]%N; [66;83;67;82;73;66;69;32;99;104;13]%N; [10;80]%N; [73;78;71;32;120;13;10]%N]
    = LOpen true [m_sub] [m_ping] [] None [] [] /\
  t38_live_run ho_source is_sub [w_sub ++ w_ping1 ++ w_ping2] = LOpen true [m_sub] [m_ping] [] None [] [] /\
  t38_live_run ho_source is_sub [w_sub; w_ping1 ++ w_ping2 ++ w_bad] = LClosed true [m_sub] [m_ping] [] None [] (EParse EMultiBulk).
Proof. vm_compute. repeat split; reflexivity. Qed.
