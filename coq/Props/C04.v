(* C04 — A torn or padded log tail is repaired and loses nothing but the torn command.
   Only the property theorems, each closed by a lemma of Proofs/. *)
From T38 Require Import Base.Bytes Model.Resp Model.Aof Proofs.RespProofs Proofs.AofProofs Proofs.ChunkProofs.
Local Open Scope Z_scope.

(* What writeAOF appends is read back exactly, whatever follows it in the buffer. *)
Theorem c04_enc_complete : forall args r,
  args <> [] -> len (enc args) < BIG -> read_next (enc args ++ r) = Complete args Redis r.
Proof. exact read_next_enc. Qed.
Print Assumptions c04_enc_complete.

(* Every strict byte prefix of an encoded command is Incomplete: never an error (loadAOF would
   refuse to start), never a wrong command, never a panic. *)
Theorem c04_enc_prefix_incomplete : forall args q s,
  args <> [] -> len (enc args) < BIG -> q ++ s = enc args -> s <> [] -> read_next q = Incomplete.
Proof. exact read_next_enc_cut. Qed.
Print Assumptions c04_enc_prefix_incomplete.

(* Loading ANY byte prefix q of a log of encoded commands yields exactly the commands wholly inside
   the cut, and the valid size (what the file is truncated to) is their total encoded length. *)
Theorem c04_cut : forall cmds q s,
  Forall cmd_ok cmds -> q ++ s = encs cmds ->
  load_whole q = Loaded (firstn (inside cmds (len q)) cmds) (len (encs (firstn (inside cmds (len q)) cmds))).
Proof. exact load_whole_cut. Qed.
Print Assumptions c04_cut.

(* Zero runs of any length before every command and at the tail are skipped; nothing is cut. *)
Theorem c04_zeros : forall l ztail,
  Forall (fun zc => cmd_ok (snd zc)) l ->
  load_whole (padded l ++ repeat 0%N ztail) = Loaded (map snd l) (len (padded l ++ repeat 0%N ztail)).
Proof. exact load_whole_padded. Qed.
Print Assumptions c04_zeros.

(* After the repair the file is the encoding of the kept commands; appending further commands to it
   and loading again yields kept ++ more, with no truncation. *)
Theorem c04_append_after : forall cmds q s more,
  Forall cmd_ok cmds -> Forall cmd_ok more -> q ++ s = encs cmds ->
  let kept := firstn (inside cmds (len q)) cmds in
  load_whole q = Loaded kept (len (encs kept)) /\
  load_whole (encs kept ++ encs more) = Loaded (kept ++ more) (len (encs kept ++ encs more)).
Proof. exact load_after_append. Qed.
Print Assumptions c04_append_after.

(* The chunked read loop of loadAOF with its carry-over buffer computes exactly what one-shot parsing
   computes, for EVERY way the reads cut the file (NULs are skipped only where a command starts; the
   carry-over is prepended untouched), on every file on whose prefixes the parser does not panic. *)
Theorem c04_chunked_eq_whole : forall chunks,
  (forall k, drain_all (firstn k (concat chunks)) <> DPanic) ->
  load_chunks chunks [] 0 [] = load_whole (concat chunks).
Proof. exact load_chunks_eq_whole. Qed.
Print Assumptions c04_chunked_eq_whole.

(* ... in particular with fixed-size reads of any size > 0 (loadAOF: 0xFFFF) *)
Theorem c04_load_aof_eq_whole : forall csz file,
  (0 < csz)%nat -> (forall k, drain_all (firstn k file) <> DPanic) ->
  load_aof_sz csz file = load_whole file.
Proof. exact load_aof_sz_eq_whole. Qed.
Print Assumptions c04_load_aof_eq_whole.

(* c04_cut for the chunked loader itself: any byte prefix of a log of encoded commands, read in
   0xFFFF-byte packets, yields exactly the commands wholly inside the cut (no panic hypothesis left). *)
Theorem c04_cut_chunked : forall cmds q s,
  Forall cmd_ok cmds -> q ++ s = encs cmds ->
  load_aof q = Loaded (firstn (inside cmds (len q)) cmds) (len (encs (firstn (inside cmds (len q)) cmds))).
Proof. exact load_aof_cut. Qed.
Print Assumptions c04_cut_chunked.

(* Tear and padding together, for loadAOF's own chunked loop: any byte prefix q of a log with zero runs of
   any length before every command and at the tail loads as the commands wholly inside q; the valid size is
   those commands with their padding plus the zero run z' that precedes the torn piece lo. *)
Theorem c04_cut_padded : forall l ztail q s,
  Forall (fun zc => cmd_ok (snd zc)) l -> q ++ s = padded l ++ repeat 0%N ztail ->
  exists n z' lo,
    q = padded (firstn n l) ++ repeat 0%N z' ++ lo /\
    load_aof q = Loaded (map snd (firstn n l)) (len (padded (firstn n l)) + Z.of_nat z').
Proof. exact load_aof_cut_padded. Qed.
Print Assumptions c04_cut_padded.

(* c04_zeros and c04_append_after for the chunked loader *)
Theorem c04_zeros_chunked : forall l ztail,
  Forall (fun zc => cmd_ok (snd zc)) l ->
  load_aof (padded l ++ repeat 0%N ztail) = Loaded (map snd l) (len (padded l ++ repeat 0%N ztail)).
Proof. exact load_aof_padded. Qed.
Print Assumptions c04_zeros_chunked.

Theorem c04_append_after_chunked : forall cmds q s more,
  Forall cmd_ok cmds -> Forall cmd_ok more -> q ++ s = encs cmds ->
  let kept := firstn (inside cmds (len q)) cmds in
  load_aof q = Loaded kept (len (encs kept)) /\
  load_aof (encs kept ++ encs more) = Loaded (kept ++ more) (len (encs kept ++ encs more)).
Proof. exact load_aof_after_append. Qed.
Print Assumptions c04_append_after_chunked.

(* Open known finding C04-torn-then-padded: zero padding AFTER a torn command (a crash during an append
   on a file system that zero-extends) is not repaired.  The torn prefix alone, or with fewer NULs than the
   missing bytes, loads as [c1]; with 64 NULs the parser sees "invalid bulk length" and loadAOF fails.
   c04_cut_padded is the partial statement that holds: padding at command boundaries only. *)
Theorem c04_torn_then_padded_refuted :
  let c1 := [[83; 69; 84]; [107]; [118]]%N in
  let c2 := [[83; 69; 84]; [107]; [104; 101; 108; 108; 111; 32; 119; 111; 114; 108; 100]]%N in
  let q := firstn 53 (encs [c1; c2]) in
  cmd_ok c1 /\ cmd_ok c2 /\ (length q < length (encs [c1; c2]))%nat /\
  load_whole q = Loaded [c1] 27 /\
  load_aof (q ++ repeat 0%N 64) = LoadErr EBulk /\
  load_aof (q ++ repeat 0%N 5) = Loaded [c1] 27.
Proof. exact torn_then_padded_fails. Qed.
Print Assumptions c04_torn_then_padded_refuted.

(* non-vacuity: SET k "\r\n*$\000" cut inside the second command *)
Example c04_nonvacuous :
  let c1 := [[83; 69; 84]; [107]; [13; 10; 42; 36; 0]]%N in
  let c2 := [[68; 69; 76]; [107]]%N in
  cmd_ok c1 /\ cmd_ok c2 /\
  load_whole (firstn 37 (encs [c1; c2])) = Loaded [c1] 31 /\
  load_aof (firstn 37 (encs [c1; c2])) = Loaded [c1] 31.
Proof. vm_compute. repeat split; congruence. Qed.
