(* C17 — Every reply is well-formed, and RESP and JSON outputs agree.
   This file holds only the property theorems, each closed by a lemma of Proofs/. *)
From T38 Require Import Base.Bytes Base.Utf8 Model.Json Model.Templates
  Model.JsonMode Proofs.JsonModeProofs Model.WsFrame Model.RespOut Model.JsonScan Proofs.JsonScanProofs Proofs.JsonRespProofs Proofs.JsonProofs Proofs.JsonTmplProofs Proofs.JsonGenProofs Proofs.JsonWsProofs Model.Mvt Proofs.MvtProofs Model.ClientList Proofs.ClientListProofs.
From T38 Require Gen.Templates.

(* jsonString / appendJSONString (fast path and Go's json.Marshal escaping: control bytes, quote,
   backslash, < > &, U+2028/9, invalid UTF-8) always produce one valid JSON document: a string. *)
Theorem json_string_valid : forall s, valid_json (json_string s) = true.
Proof. exact json_string_valid_proof. Qed.
Print Assumptions json_string_valid.

(* ... and a string token in every position where one may start (value, array element, member
   name), leaving the enclosing structure untouched: this is what typed HStr holes rely on. *)
Theorem json_string_token : forall s q k st,
  string_start q = Some (k, st) -> jrun (json_string s) q = Some (string_end k st).
Proof. exact json_string_run. Qed.
Print Assumptions json_string_token.

(* Soundness of the template checker: whatever the holes are filled with (within their types),
   whichever branches are taken and however often loops iterate, an accepted template only
   produces valid JSON documents. *)
Theorem tmpl_ok_sound : forall t,
  tmpl_ok t = true -> forall v, inst t v -> valid_json v = true.
Proof. exact tmpl_ok_sound_proof. Qed.
Print Assumptions tmpl_ok_sound.

(* The checker holds for every whole-document reply template regenerated from the source. *)
Theorem c17_all_templates : forallb tmpl_ok Gen.Templates.templates = true.
Proof. exact all_templates_ok. Qed.
Print Assumptions c17_all_templates.

(* Hence: every instance of every regenerated whole-document template is one valid JSON
   document that starts with {"ok":true or {"ok":false. *)
Theorem c17_replies_valid : forall t v,
  In t Gen.Templates.templates -> inst t v ->
  valid_json v = true /\ (hasPrefix ok_true_prefix v \/ hasPrefix ok_false_prefix v).
Proof. exact all_replies_valid. Qed.
Print Assumptions c17_replies_valid.

(* The helpers that print one JSON value (simple point, simple bounds, time) are checked as values. *)
Theorem c17_value_helpers : forallb tmpl_value_ok Gen.Templates.value_templates = true.
Proof. exact all_value_templates_ok. Qed.
Print Assumptions c17_value_helpers.

(* Replies assembled across functions (scanWriter: SCAN / SEARCH / NEARBY / WITHIN / INTERSECTS)
   are checked write expression by write expression.  PARTIAL: each fragment is a legal
   continuation of a JSON text in some context (raw text only inside string literals, value holes
   only in value position, quotes and escapes balanced); that the fragments are issued in an order
   that forms one document is NOT proved here, it is carried by the black-box oracle. *)
Theorem c17_fragments_partial : forallb frag_ok Gen.Templates.fragments = true.
Proof. exact all_fragments_ok. Qed.
Print Assumptions c17_fragments_partial.

Theorem frag_ok_sound_partial : forall t,
  frag_ok t = true ->
  exists q q', In q frag_starts /\
    forall v, inst t v -> exists qc', jrun v q = Some qc' /\ sim q' qc'.
Proof. exact frag_ok_sound_proof. Qed.
Print Assumptions frag_ok_sound_partial.

(* Whole-document validity of the scanWriter replies (SCAN / SEARCH / NEARBY / WITHIN /
   INTERSECTS): the four templates assembled from the extracted fragments in the order in which
   the handler, writeFoot and writeFilled emit them (the order grammar is written by hand in
   harness/internal/tmplx scanGrammar; the harness checks that every real reply of these commands
   is an instance of its template) are accepted, hence every instance is one valid JSON document
   starting with {"ok":true.  This supersedes the fragment-wise statement for validity. *)
Theorem c17_scan_templates :
  length Gen.Templates.scan_templates = 4%nat /\ forallb tmpl_ok Gen.Templates.scan_templates = true.
Proof. exact (conj scan_templates_present all_scan_templates_ok). Qed.
Print Assumptions c17_scan_templates.

Theorem c17_scan_replies_valid : forall t v,
  In t Gen.Templates.scan_templates -> inst t v ->
  valid_json v = true /\ (hasPrefix ok_true_prefix v \/ hasPrefix ok_false_prefix v).
Proof. exact all_scan_replies_valid. Qed.
Print Assumptions c17_scan_replies_valid.

(* F7 (repaired): the template of OUTPUT before the repair is rejected, with an invalid instance. *)
Theorem c17_output_before_fix_refuted :
  tmpl_ok output_template_before_fix = false /\
  exists v, inst output_template_before_fix v /\ valid_json v = false.
Proof. exact output_before_fix_refuted. Qed.
Print Assumptions c17_output_before_fix_refuted.

(* F15 (repaired): a float printed by strconv.FormatFloat in value position is rejected. *)
Theorem c17_unguarded_float_refuted :
  tmpl_ok (Seq (Seq (Lit [123; 34; 111; 107; 34; 58; 116; 114; 117; 101; 44; 34; 100; 34; 58]) HFloat) (Lit [125])) = false /\
  exists v, inst (Seq (Seq (Lit [123; 34; 111; 107; 34; 58; 116; 114; 117; 101; 44; 34; 100; 34; 58]) HFloat) (Lit [125])) v /\ valid_json v = false.
Proof. exact unguarded_float_refuted. Qed.
Print Assumptions c17_unguarded_float_refuted.

(* WebSocket transport wrapping: the frame WriteWebSocketMessage writes for a payload (header
   transcribed: len <= 125 | len <= 0xFFFF | else) is decoded by a conforming client to exactly
   that payload, for every payload length a Go slice can have (len is an int: < 2^63). *)
Theorem c17_ws_frame_roundtrip : forall payload,
  N.of_nat (length payload) < 2 ^ 63 -> ws_decode (ws_frame payload) = Some payload.
Proof. exact ws_frame_roundtrip_proof. Qed.
Print Assumptions c17_ws_frame_roundtrip.

(* the boundaries of the three length forms, and the refutation of the usual off-by-one
   (first test <= 126): a 126 byte payload is then not decodable *)
Theorem c17_ws_header_boundaries :
  ws_header 125 = [129; 125] /\ ws_header 126 = [129; 126; 0; 126] /\
  ws_header 65535 = [129; 126; 255; 255] /\ ws_header 65536 = [129; 127; 0; 0; 0; 0; 0; 1; 0; 0].
Proof. exact ws_header_boundaries. Qed.
Print Assumptions c17_ws_header_boundaries.

Theorem c17_ws_header_off_by_one_refuted :
  exists p, ws_decode (ws_header_126 (N.of_nat (length p)) ++ p) <> Some p.
Proof. exact ws_header_126_refuted. Qed.
Print Assumptions c17_ws_header_off_by_one_refuted.

(* RESP mode: the printer of every RESP-mode reply (resp.Value.MarshalRESP transcribed: simple
   strings, errors, integers, bulk strings, null bulk, null array, arrays, nested) is inverted by a
   strict RESP2 parser: a client recovers exactly the value printed and nothing is left over.
   Well-formed = simple strings and errors contain no CR / LF.  tile38 guarantees that: every
   error reply goes through resp.ErrorValue and every simple string through
   resp.SimpleStringValue, both of which apply formSingleLine (c17_resp_single_line); the raw
   writes (+PONG, +OK, -ERR wrong number of arguments for 'cmd' command) are fixed literals around a
   dispatched command name. *)
Theorem c17_resp_valid : forall v, resp_wf v = true -> resp_parse (resp_print v) = Some (v, []).
Proof. exact resp_valid_proof. Qed.
Print Assumptions c17_resp_valid.

(* ... also in the middle of a stream (pipelined replies do not run into each other) *)
Theorem c17_resp_valid_stream : forall v, resp_wf v = true -> forall rest,
  resp_parse_fuel (S (length (resp_print v ++ rest))) (resp_print v ++ rest) = Some (v, rest).
Proof. exact resp_roundtrip_proof. Qed.
Print Assumptions c17_resp_valid_stream.

Theorem c17_resp_single_line : forall s, line_ok (form_single_line s) = true.
Proof. exact form_single_line_ok. Qed.
Print Assumptions c17_resp_single_line.

(* the hypothesis is needed: a simple string carrying CR LF does not come back *)
Theorem c17_resp_crlf_refuted :
  resp_parse (resp_print (RSimple [79; 75; 13; 10; 43; 88])) <> Some (RSimple [79; 75; 13; 10; 43; 88], []).
Proof. exact crlf_in_simple_refuted. Qed.
Print Assumptions c17_resp_crlf_refuted.

(* The two modes convey the same result, for the scanWriter commands (SCAN / SEARCH / NEARBY /
   WITHIN / INTERSECTS) with the outputs IDS, COUNT and OBJECTS: the JSON arm and the RESP arm of
   writeFoot / writeFilled, transcribed as render_json / render_resp over one abstract result (ids,
   objects and field values as printed values, field-name list, distances, count, cursor), are
   projected by a client onto the same abstract reply: ids, objects, non-zero fields, distances,
   cursor (count for COUNT).  Hypothesis wf_res: the name list has no duplicates and is in byte
   order, and every object's field list is a sub-list of it (field.List and the fkeys B-tree set are
   both in byte order of the names; the repaired JSON arm scans the object's list up to the first
   larger name). *)
Theorem c17_modes_agree : forall r, wf_res r ->
  proj_json (sr_out r) (render_json r) = Some (abs_of r) /\
  proj_resp (sr_out r) (render_resp r) = Some (abs_of r).
Proof. exact modes_agree_proof. Qed.
Print Assumptions c17_modes_agree.

(* Finding C17-scan-json-path-field (repaired in /repo: 903e555).  The pinned JSON arm of writeFilled
   filled the positional "fields" array with Fields().Get(name), which resolves a dotted name inside
   a JSON-valued field; the RESP arm lists the stored fields.  On the well-formed result of SET fleet b
   FIELD props.speed 5 POINT 1 1; SET fleet truck1 FIELD props {"speed":7} POINT 2 2; SCAN fleet OBJECTS
   the pinned JSON rendering (json_item_pinned) and the RESP rendering convey different fields, the
   repaired rendering (exact stored name) agrees. *)
Theorem c17_scan_json_path_field_pinned_refuted :
  wf_res json_path_result /\
  proj_json (sr_out json_path_result) (render_json_pinned json_path_result) <>
  proj_resp (sr_out json_path_result) (render_resp json_path_result) /\
  proj_json (sr_out json_path_result) (render_json json_path_result) =
  proj_resp (sr_out json_path_result) (render_resp json_path_result).
Proof. exact json_path_field_pinned_refuted. Qed.
Print Assumptions c17_scan_json_path_field_pinned_refuted.

(* the distance-0 case, explicitly: NEARBY .. DISTANCE of an object at the query point prints
   "distance":0 / the bulk 0 (opts.distOutput makes the test true although dist > 0 is false) *)
Theorem c17_zero_distance_kept :
  wf_res zero_dist_result /\
  abs_of zero_dist_result = AList 0 [ {| a_id := [97]; a_obj := None; a_fields := []; a_dist := Some [48] |} ] /\
  proj_json OIds (render_json zero_dist_result) = Some (abs_of zero_dist_result) /\
  proj_resp OIds (render_resp zero_dist_result) = Some (abs_of zero_dist_result).
Proof. exact zero_distance_kept. Qed.
Print Assumptions c17_zero_distance_kept.

(* ... and the variant whose JSON ids arm tests dist > 0 only (seeded change C17/2) makes the two
   modes disagree on that very result *)
Theorem c17_drop_zero_distance_refuted :
  exists r, wf_res r /\ proj_json (sr_out r) (render_json_dropzero r) <> proj_resp (sr_out r) (render_resp r).
Proof. exact dropzero_refuted. Qed.
Print Assumptions c17_drop_zero_distance_refuted.

(* Which mode a reply is in: netServe's loops (per packet, per message: resolve msg.OutputType from
   client.outputType / the -o default / the framing, OUTPUT switches it, HELLO <digit> on a server
   started with -o json is answered in RESP for that one reply, write the message's mode back)
   produce, for every split of the command stream into packets, the mode of the latest OUTPUT switch
   at or before each command (else the connection's initial mode); a HELLO changes nothing for the
   commands after it.  serve is the model with the HELLO branch as the source has it: whether the
   branch restores msg.OutputType before returning is read from handleInputCommand by tmplx
   (Gen.Templates.hello_restores_output). *)
Theorem c17_mode_follows_output : forall dflt parsed packets c,
  serve dflt parsed c packets = spec_modes dflt parsed (initial_mode dflt parsed c) (concat packets).
Proof. exact serve_spec_proof. Qed.
Print Assumptions c17_mode_follows_output.

Theorem c17_mode_packet_independent : forall dflt parsed c ps qs,
  concat ps = concat qs -> serve dflt parsed c ps = serve dflt parsed c qs.
Proof. exact serve_packet_independent_proof. Qed.
Print Assumptions c17_mode_packet_independent.

(* resolving the mode once per packet (seeded change C17/4) is refuted: [OUTPUT json][cmd] in one packet *)
Theorem c17_mode_hoisted_refuted :
  serve_hoisted None OResp None [[POutput OJson; POther]; [POther]] <> serve None OResp None [[POutput OJson; POther]; [POther]].
Proof. exact hoisted_refuted. Qed.
Print Assumptions c17_mode_hoisted_refuted.

(* HELLO 3 on a server started with -o json (what go-redis sends first): the error is in RESP, the
   next command is answered in JSON again, in the same packet or the next; HELLO abc, or HELLO 3
   after an OUTPUT json on a server without -o, is an ordinary JSON error *)
Theorem c17_hello_leaves_mode :
  serve (Some OJson) OResp None [[PHello true; POther]] = [OResp; OJson] /\
  serve (Some OJson) OResp None [[PHello true]; [POther]] = [OResp; OJson] /\
  serve (Some OJson) OResp None [[PHello false; POther]] = [OJson; OJson] /\
  serve None OResp None [[POutput OJson; PHello true; POther]] = [OJson; OJson; OJson].
Proof. exact hello_leaves_mode_proof. Qed.
Print Assumptions c17_hello_leaves_mode.

(* without the restore in the HELLO branch (seeded change C17/11) the temporary RESP setting is written
   back into client.outputType: every later reply of the connection is RESP on a JSON-mode server *)
Theorem c17_hello_no_restore_refuted :
  serve_r false (Some OJson) OResp None [[PHello true]; [POther]] <>
  spec_modes (Some OJson) OResp (initial_mode (Some OJson) OResp None) (concat [[PHello true]; [POther]]) /\
  serve_r false (Some OJson) OResp None [[PHello true]; [POther]] = [OResp; OResp].
Proof. exact hello_no_restore_refuted. Qed.
Print Assumptions c17_hello_no_restore_refuted.

(* CLIENT LIST: RESP mode returns the text `id=.. addr=.. name=.. age=.. idle=..` per connection, JSON
   mode re-parses that text (split at newlines and spaces, each piece cut at the FIRST '=').  For
   every list of connections whose names are names CLIENT SETNAME accepts (any bytes '!'..'~', '='
   included) and whose other values hold no white space, the members JSON mode recovers are exactly
   the fields RESP mode printed, connection by connection, in order. *)
Theorem c17_client_list_fields_agree : forall cs, forallb client_wf cs = true ->
  json_entries cut_first (list_text cs) = map resp_fields cs.
Proof. exact client_list_fields_agree. Qed.
Print Assumptions c17_client_list_fields_agree.

(* cutting at every '=' and keeping pieces of exactly two parts (seeded change C17/12) loses the name a=b *)
Theorem c17_client_list_split_all_refuted :
  client_wf client_eq_name = true /\
  json_entries cut_only (list_text [client_eq_name]) <> map resp_fields [client_eq_name] /\
  json_entries cut_only (list_text [client_eq_name]) = [[(k_id, [55]); (k_addr, [49; 58; 50]); (k_age, [48]); (k_idle, [48])]].
Proof. exact client_list_split_all_refuted. Qed.
Print Assumptions c17_client_list_split_all_refuted.

(* Pub/sub: what a JSON-mode subscriber is sent for any published payload (the payload itself
   when it is valid JSON, else jsonString of it) is always one valid JSON value; deciding by the
   delimiters only (seeded change C17/5) is refuted by the payload {x}. *)
Theorem c17_sub_message_valid : forall p, valid_json (sub_msg p) = true.
Proof. exact sub_msg_valid_proof. Qed.
Print Assumptions c17_sub_message_valid.

Theorem c17_sub_message_delims_refuted : exists p, valid_json (sub_msg_delims p) = false.
Proof. exact sub_msg_delims_refuted. Qed.
Print Assumptions c17_sub_message_delims_refuted.

(* Vector tiles (MVT queries): one tile, three transports.  RESP returns the tile bytes; JSON mode
   carries them in the "mvt" member as base64 written by scanWriter.writeFoot; the HTTP route
   GET /key/z/x/y.mvt runs the query in JSON mode, takes the member out again and decodes it
   (handleInputCommand, case HTTP).  The two sites are an encode / decode pair; which encoding each
   names is read from the source on every run (Gen.Templates.mvt_json_encoding / mvt_http_decoding).
   With the encodings the source names now: for EVERY tile the member decodes back to it and the HTTP
   route answers 200, application/vnd.mapbox-vector-tile and exactly the tile RESP returns. *)
Theorem c17_mvt_http_delivers_tile : forall tile res, wf_bytes tile ->
  exists member,
    mvt_member Gen.Templates.mvt_json_encoding tile = Some member /\
    mvt_http Gen.Templates.mvt_http_decoding res (Some member) = Some (mkH 200 CTMvt tile).
Proof. exact mvt_http_delivers_tile. Qed.
Print Assumptions c17_mvt_http_delivers_tile.

(* base64 itself (encoding/base64 transcribed for StdEncoding and RawStdEncoding): decoding with the
   encoding that encoded gives the bytes back, for all byte strings *)
Theorem c17_base64_roundtrip : forall k t, wf_bytes t -> decode k (encode k t) = Some t.
Proof. exact same_kind_roundtrip. Qed.
Print Assumptions c17_base64_roundtrip.

(* ... and the padded encoder in front of the unpadded decoder (seeded change C17/9) is refuted for
   every tile whose length is not a multiple of 3: the HTTP route answers 500, the JSON content type
   and the base64 text *)
Theorem c17_mvt_std_into_raw_refuted : forall tile res,
  wf_bytes tile -> (N.of_nat (length tile)) mod 3 <> 0 ->
  decode BRawStd (encode BStd tile) = None /\
  mvt_http n_RawStdEncoding res (mvt_member n_StdEncoding tile) = Some (mkH 500 CTJson (encode BStd tile)).
Proof. exact (fun tile res Hw Hn => conj (std_into_raw_rejected tile Hw Hn) (mvt_http_std_raw_refuted tile res Hw Hn)). Qed.
Print Assumptions c17_mvt_std_into_raw_refuted.

(* non-vacuity: hole fills exist (a string needing every kind of escape, an integer, a boolean),
   and the regenerated list is not empty *)
Example c17_nonvacuous :
  json_value (json_string [97; 34; 92; 10; 1; 60; 255; 226; 128; 168; 195; 169]) /\
  json_value [45; 49; 50] /\ json_value [116; 114; 117; 101] /\
  (40 <= length Gen.Templates.templates)%nat /\
  valid_json (json_string [97; 34; 92; 10; 1; 60; 255; 226; 128; 168; 195; 169]) = true.
Proof.
  split; [apply json_string_value|]. split; [apply int_text_value; reflexivity|].
  split; [apply (bool_text_value true)|]. split; [vm_compute; lia | vm_compute; reflexivity].
Qed.
