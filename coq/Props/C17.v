(* C17 — Every reply is well-formed, and RESP and JSON outputs agree.
   This file holds only the property theorems, each closed by a lemma of Proofs/. *)
From T38 Require Import Base.Bytes Base.Utf8 Model.Json Model.Templates
  Model.WsFrame Proofs.JsonProofs Proofs.JsonTmplProofs Proofs.JsonGenProofs Proofs.JsonWsProofs.
From T38 Require Gen.Templates.

(* jsonString / appendJSONString (fast path and Go's json.Marshal escaping: control bytes, quote,
   backslash, < > &, U+2028/9, invalid UTF-8) always produce one valid JSON document: a string. *)
Theorem json_string_valid : forall s, valid_json (json_string s) = true.
Proof. exact json_string_valid_proof. Qed.
Print Assumptions json_string_valid.

(* ... and a string token in every position where one may start (value, array element, member
   name), leaving the enclosing structure untouched: this is what typed HStr holes rely on. *)
Theorem json_string_token : forall s q k st,
  string_start q = Some (k, st) -> jrun (json_string s) q = Some (string_end k st).
Proof. exact json_string_run. Qed.
Print Assumptions json_string_token.

(* Soundness of the template checker: whatever the holes are filled with (within their types),
   whichever branches are taken and however often loops iterate, an accepted template only
   produces valid JSON documents. *)
Theorem tmpl_ok_sound : forall t,
  tmpl_ok t = true -> forall v, inst t v -> valid_json v = true.
Proof. exact tmpl_ok_sound_proof. Qed.
Print Assumptions tmpl_ok_sound.

(* The checker holds for every whole-document reply template regenerated from the source. *)
Theorem c17_all_templates : forallb tmpl_ok Gen.Templates.templates = true.
Proof. exact all_templates_ok. Qed.
Print Assumptions c17_all_templates.

(* Hence: every instance of every regenerated whole-document template is one valid JSON
   document that starts with {"ok":true or {"ok":false. *)
Theorem c17_replies_valid : forall t v,
  In t Gen.Templates.templates -> inst t v ->
  valid_json v = true /\ (hasPrefix ok_true_prefix v \/ hasPrefix ok_false_prefix v).
Proof. exact all_replies_valid. Qed.
Print Assumptions c17_replies_valid.

(* The helpers that print one JSON value (simple point, simple bounds, time) are checked as values. *)
Theorem c17_value_helpers : forallb tmpl_value_ok Gen.Templates.value_templates = true.
Proof. exact all_value_templates_ok. Qed.
Print Assumptions c17_value_helpers.

(* Replies assembled across functions (scanWriter: SCAN / SEARCH / NEARBY / WITHIN / INTERSECTS)
   are checked write expression by write expression.  PARTIAL: each fragment is a legal
   continuation of a JSON text in some context (raw text only inside string literals, value holes
   only in value position, quotes and escapes balanced); that the fragments are issued in an order
   that forms one document is NOT proved here, it is carried by the black-box oracle. *)
Theorem c17_fragments_partial : forallb frag_ok Gen.Templates.fragments = true.
Proof. exact all_fragments_ok. Qed.
Print Assumptions c17_fragments_partial.

Theorem frag_ok_sound_partial : forall t,
  frag_ok t = true ->
  exists q q', In q frag_starts /\
    forall v, inst t v -> exists qc', jrun v q = Some qc' /\ sim q' qc'.
Proof. exact frag_ok_sound_proof. Qed.
Print Assumptions frag_ok_sound_partial.

(* F7 (repaired): the template of OUTPUT before the repair is rejected, with an invalid instance. *)
Theorem c17_output_before_fix_refuted :
  tmpl_ok output_template_before_fix = false /\
  exists v, inst output_template_before_fix v /\ valid_json v = false.
Proof. exact output_before_fix_refuted. Qed.
Print Assumptions c17_output_before_fix_refuted.

(* F15 (repaired): a float printed by strconv.FormatFloat in value position is rejected. *)
Theorem c17_unguarded_float_refuted :
  tmpl_ok (Seq (Seq (Lit [123; 34; 111; 107; 34; 58; 116; 114; 117; 101; 44; 34; 100; 34; 58]) HFloat) (Lit [125])) = false /\
  exists v, inst (Seq (Seq (Lit [123; 34; 111; 107; 34; 58; 116; 114; 117; 101; 44; 34; 100; 34; 58]) HFloat) (Lit [125])) v /\ valid_json v = false.
Proof. exact unguarded_float_refuted. Qed.
Print Assumptions c17_unguarded_float_refuted.

(* WebSocket transport wrapping: the frame WriteWebSocketMessage writes for a payload (header
   transcribed: len <= 125 | len <= 0xFFFF | else) is decoded by a conforming client to exactly
   that payload, for every payload length a Go slice can have (len is an int: < 2^63). *)
Theorem c17_ws_frame_roundtrip : forall payload,
  N.of_nat (length payload) < 2 ^ 63 -> ws_decode (ws_frame payload) = Some payload.
Proof. exact ws_frame_roundtrip_proof. Qed.
Print Assumptions c17_ws_frame_roundtrip.

(* the boundaries of the three length forms, and the refutation of the usual off-by-one
   (first test <= 126): a 126 byte payload is then not decodable *)
Theorem c17_ws_header_boundaries :
  ws_header 125 = [129; 125] /\ ws_header 126 = [129; 126; 0; 126] /\
  ws_header 65535 = [129; 126; 255; 255] /\ ws_header 65536 = [129; 127; 0; 0; 0; 0; 0; 1; 0; 0].
Proof. exact ws_header_boundaries. Qed.
Print Assumptions c17_ws_header_boundaries.

Theorem c17_ws_header_off_by_one_refuted :
  exists p, ws_decode (ws_header_126 (N.of_nat (length p)) ++ p) <> Some p.
Proof. exact ws_header_126_refuted. Qed.
Print Assumptions c17_ws_header_off_by_one_refuted.

(* non-vacuity: hole fills exist (a string needing every kind of escape, an integer, a boolean),
   and the regenerated list is not empty *)
Example c17_nonvacuous :
  json_value (json_string [97; 34; 92; 10; 1; 60; 255; 226; 128; 168; 195; 169]) /\
  json_value [45; 49; 50] /\ json_value [116; 114; 117; 101] /\
  (40 <= length Gen.Templates.templates)%nat /\
  valid_json (json_string [97; 34; 92; 10; 1; 60; 255; 226; 128; 168; 195; 169]) = true.
Proof.
  split; [apply json_string_value|]. split; [apply int_text_value; reflexivity|].
  split; [apply (bool_text_value true)|]. split; [vm_compute; lia | vm_compute; reflexivity].
Qed.
