(* C02 (continued) — from the search result to the reply.  c02_search_exact / c02_search_equals_test are
   about the index walk filtered by the exact predicate; between that and the reply of WITHIN /
   INTERSECTS stands scanWriter.pushObject (Model/Cursor.v push_object, C11 / C12).  These theorems state
   for C02 that this stage drops nothing but what the command asks it to drop — MATCH / WHERE* filters
   ([test]) and LIMIT — for every object, whatever its deadline field holds: an object past its TTL is in
   the collection and in the index until the sweeper deletes it, TEST resolves it, so the search lists it.
   Only the property theorems, each closed by a lemma of Proofs/. *)
From Coq Require Import List NArith Bool.
From T38 Require Import Base.Bytes Model.Float32 Model.Collection Model.Search Model.Cursor Model.SearchReply
  Proofs.CollectionProofs Proofs.SearchProofs Proofs.SearchReplyProofs.
Import ListNotations.
Open Scope N_scope.

(* Cursor 0 and a LIMIT above the number of matches: the reply is the search result filtered by the
   command's filters, in index order, and the reply cursor is 0. *)
Theorem c02_reply_exact : forall (Q : Type) (qrect : Q -> rect64) (hits : obj -> Q -> bool) (test : obj -> bool)
    c q limit,
  N.of_nat (length (filter test (search Q qrect hits c q))) < limit ->
  search_reply Q qrect hits test c q 0 limit = (filter test (search Q qrect hits c q), 0).
Proof. exact reply_exact. Qed.
Print Assumptions c02_reply_exact.

(* Any cursor, any LIMIT: whatever is replied satisfied the exact predicate and the filters. *)
Theorem c02_reply_sound : forall (Q : Type) (qrect : Q -> rect64) (hits : obj -> Q -> bool) (test : obj -> bool)
    c q cursor limit o,
  1 <= limit -> In o (fst (search_reply Q qrect hits test c q cursor limit)) ->
  In o (search Q qrect hits c q) /\ test o = true.
Proof. exact reply_sound. Qed.
Print Assumptions c02_reply_sound.

(* With the index theorem: the reply holds exactly the objects for which TEST answers 1 and the filters
   hold, once each. *)
Theorem c02_reply_equals_test : forall (Q : Type) (qrect : Q -> rect64) (hits : obj -> Q -> bool) (test : obj -> bool)
    c q limit,
  Wf c ->
  (forall o, o_empty o = false -> hits o q = true -> overlap64 (o_rect o) (qrect q)) ->
  (forall o, o_empty o = false -> hits o q = true -> o_spatial o = true) ->
  N.of_nat (length (filter test (search Q qrect hits c q))) < limit ->
  snd (search_reply Q qrect hits test c q 0 limit) = 0 /\
  (forall o, In o (fst (search_reply Q qrect hits test c q 0 limit)) <->
             In o (test_spec Q hits c q) /\ test o = true) /\
  NoDup (map o_id (fst (search_reply Q qrect hits test c q 0 limit))).
Proof. exact reply_equals_test. Qed.
Print Assumptions c02_reply_equals_test.

(* No MATCH, no WHERE*, LIMIT above the result size: the reply IS the search result — nothing between the
   predicate and the reply drops an object — and its ids are exactly those for which TEST answers 1. *)
Theorem c02_reply_no_filter_equals_test : forall (Q : Type) (qrect : Q -> rect64) (hits : obj -> Q -> bool) c q limit,
  Wf c ->
  (forall o, o_empty o = false -> hits o q = true -> overlap64 (o_rect o) (qrect q)) ->
  (forall o, o_empty o = false -> hits o q = true -> o_spatial o = true) ->
  N.of_nat (length (search Q qrect hits c q)) < limit ->
  search_reply Q qrect hits no_filter c q 0 limit = (search Q qrect hits c q, 0) /\
  (forall o, In o (fst (search_reply Q qrect hits no_filter c q 0 limit)) <-> In o (test_spec Q hits c q)).
Proof. exact reply_no_filter_equals_test. Qed.
Print Assumptions c02_reply_no_filter_equals_test.
