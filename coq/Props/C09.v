(* C09 — AOFSHRINK preserves the dataset.
   This file holds only the property theorems, each closed by a lemma of Proofs/ShrinkProofs.v,
   and closed examples showing that the hypotheses are satisfiable by non-trivial states. *)
From Coq Require Import List NArith ZArith Bool.
From T38 Require Import Base.Bytes Base.SMap Model.Shrink Proofs.ShrinkProofs.
Import ListNotations.

(* Writers that do not RENAME may run between any two locked sections of the rewrite: once the
   scan loops are over, snapshot ++ shrinklog replays to the live dataset, for any batch sizes. *)
Theorem c09_concurrent_partial :
  forall mk mi s0 sched, wf s0 -> no_rename sched = true ->
    let r := run_sched mk mi sched (run_init s0) in
    sh_done (r_sh r) = true ->
    same_data (replay (newfile r) []) (r_live r).
Proof. exact concurrent_partial. Qed.
Print Assumptions c09_concurrent_partial.

(* No writer at all: the new file replays to the dataset the rewrite started from. *)
Theorem c09_quiescent :
  forall mk mi s n, wf s ->
    let r := run_sched mk mi (repeat Step n) (run_init s) in
    sh_done (r_sh r) = true -> same_data (replay (newfile r) []) s.
Proof. exact quiescent. Qed.
Print Assumptions c09_quiescent.

(* Known finding (open): with RENAME the property fails, with the real batch sizes.
   Witness "lost collection": after the first keys batch b..i (cursor at m), m is renamed to a;
   the rewrite never visits a, and replaying RENAME m a on the snapshot fails with key-not-found. *)
Theorem c09_rename_refuted :
  exists s0 sched, wf s0 /\ sh_done (r_sh (run_sched maxkeys maxids sched (run_init s0))) = true /\
    exists k i, lookup k i (replay (newfile (run_sched maxkeys maxids sched (run_init s0))) []) <>
                lookup k i (r_live (run_sched maxkeys maxids sched (run_init s0))).
Proof. exact rename_refuted. Qed.
Print Assumptions c09_rename_refuted.

(* Witness "replayed twice": RENAME A B; SET A 1 y logged before the snapshot of A and B is taken:
   the replayed RENAME overwrites the snapshot of B with the new A. *)
Theorem c09_rename_dup_refuted :
  exists s0 sched, wf s0 /\ sh_done (r_sh (run_sched maxkeys maxids sched (run_init s0))) = true /\
    exists k i, lookup k i (replay (newfile (run_sched maxkeys maxids sched (run_init s0))) []) <>
                lookup k i (r_live (run_sched maxkeys maxids sched (run_init s0))).
Proof. exact rename_dup_refuted. Qed.
Print Assumptions c09_rename_dup_refuted.

(* Crash at any point of the final section, repaired start-up: the recovered dataset is the one of
   the flushed live file or the one including the accepted-but-unflushed commands. *)
Theorem c09_crash_points :
  forall fi c,
    same_data (replay (f_snap fi ++ f_slog fi) []) (replay (f_live fi ++ f_pend fi) []) ->
    let d := recover_dir (crash_at fi c) in
    same_data d (replay (f_live fi) []) \/ same_data d (replay (f_live fi ++ f_pend fi) []).
Proof. exact crash_points. Qed.
Print Assumptions c09_crash_points.

(* Pinned start-up: a crash between the two renames leaves an empty database. *)
Theorem c09_crash_orig_refuted :
  exists fi,
    same_data (replay (f_snap fi ++ f_slog fi) []) (replay (f_live fi ++ f_pend fi) []) /\
    (exists k i v, lookup k i (replay (f_live fi) []) = Some v) /\
    recover_dir_orig (crash_at fi CP_after_rename_bak) = [].
Proof. exact crash_orig_refuted. Qed.
Print Assumptions c09_crash_orig_refuted.

(* ... and that is the only bad crash point of the pinned start-up. *)
Theorem c09_crash_orig_partial :
  forall fi c, c <> CP_after_rename_bak ->
    same_data (replay (f_snap fi ++ f_slog fi) []) (replay (f_live fi ++ f_pend fi) []) ->
    let d := recover_dir_orig (crash_at fi c) in
    same_data d (replay (f_live fi) []) \/ same_data d (replay (f_live fi ++ f_pend fi) []).
Proof. exact crash_orig_partial. Qed.
Print Assumptions c09_crash_orig_partial.

(* For ALL schedules (RENAME included): the snapshot records are SET records in strictly increasing
   (key, id) order — rec_lt is the lexicographic order, rec_sorted = all SET + StronglySorted rec_lt —
   hence no object is written twice and no batch repeats an earlier one. *)
Theorem c09_batches_never_repeat :
  forall mk mi s0 sched, wf s0 ->
    let r := run_sched mk mi sched (run_init s0) in rec_sorted (sh_out (r_sh r)).
Proof. exact batches_never_repeat. Qed.
Print Assumptions c09_batches_never_repeat.

(* Quiescent: the snapshot holds exactly the objects of the dataset, each once, in order. *)
Theorem c09_batches_cover :
  forall mk mi s n, wf s ->
    let r := run_sched mk mi (repeat Step n) (run_init s) in
    sh_done (r_sh r) = true ->
    (forall k i v, In (rec_cmd k i v) (sh_out (r_sh r)) <-> lookup k i s = Some v) /\
    rec_sorted (sh_out (r_sh r)).
Proof. exact batches_cover. Qed.
Print Assumptions c09_batches_cover.

(* Quiescent, stronger form: the snapshot IS the flattened dataset (one SET per object, in
   iteration order). *)
Theorem c09_quiescent_snapshot :
  forall mk mi s n, wf s ->
    let r := run_sched mk mi (repeat Step n) (run_init s) in
    sh_done (r_sh r) = true -> sh_out (r_sh r) = map rec_of (flatten s).
Proof. exact quiescent_snapshot. Qed.
Print Assumptions c09_quiescent_snapshot.

(* The quiescent rewrite terminates (batch sizes at least 1). *)
Theorem c09_quiescent_terminates :
  forall mk mi s, (1 <= mk)%nat -> (1 <= mi)%nat -> wf s ->
    exists n, sh_done (r_sh (run_sched mk mi (repeat Step n) (run_init s))) = true.
Proof. exact quiescent_terminates. Qed.
Print Assumptions c09_quiescent_terminates.

(* An AOFSHRINK request that arrives while a rewrite is running is refused: it changes nothing (so
   c09_concurrent_partial and c09_batches_never_repeat hold with requests anywhere in the schedule). *)
Theorem c09_request_is_noop :
  forall mk mi r, r_shrinking r = true -> do_ev mk mi r Req = r.
Proof. exact request_is_noop. Qed.
Print Assumptions c09_request_is_noop.

(* The flag stays set during the whole schedule whatever requests arrive; after the epilogue of the
   rewrite the next request starts a fresh rewrite with an empty shrinklog. *)
Theorem c09_request_lifecycle :
  forall s0 mk mi sched,
    let r := run_sched mk mi sched (run_init s0) in
    r_shrinking r = true /\ request (end_rewrite r) = run_init (r_live r).
Proof. exact request_lifecycle. Qed.
Print Assumptions c09_request_lifecycle.

(* A rewrite started on any directory whose live file is the expected one ends with exactly
   snapshot ++ shrinklog as the live file and no other file, whatever -bak / -shrink files an
   interrupted rewrite left behind (os.Create truncates, the renames overwrite). *)
Theorem c09_rewrite_ignores_leftovers :
  forall d fi, d_live d = Some (f_live fi) ->
    rewrite_dir d fi = mkDir (Some (f_snap fi ++ f_slog fi)) None None.
Proof. exact rewrite_ignores_leftovers. Qed.
Print Assumptions c09_rewrite_ignores_leftovers.

Theorem c09_crash_points_leftovers :
  forall d fi c, d_live d = Some (f_live fi) ->
    same_data (replay (f_snap fi ++ f_slog fi) []) (replay (f_live fi ++ f_pend fi) []) ->
    let d' := recover_dir (crash_from d fi c) in
    same_data d' (replay (f_live fi) []) \/ same_data d' (replay (f_live fi ++ f_pend fi) []).
Proof. exact crash_points_leftovers. Qed.
Print Assumptions c09_crash_points_leftovers.

(* The repaired start-up changes the directory but not the dataset it recovers to. *)
Theorem c09_startup_keeps_data :
  forall fi c, recover_dir (startup_dir (crash_at fi c)) = recover_dir (crash_at fi c).
Proof. exact startup_keeps_data. Qed.
Print Assumptions c09_startup_keeps_data.

(* A crashed rewrite, a restart, and a second rewrite: the result is the second new file alone. *)
Theorem c09_two_rewrites :
  forall fi1 c fi2, d_live (startup_dir (crash_at fi1 c)) = Some (f_live fi2) ->
    recover_dir (rewrite_dir (startup_dir (crash_at fi1 c)) fi2) = replay (f_snap fi2 ++ f_slog fi2) [].
Proof. exact two_rewrites. Qed.
Print Assumptions c09_two_rewrites.

(* The record the snapshot writes for an object recreates exactly that object (fields, deadline
   flag, payload) on a dataset that does not hold it. *)
Theorem c09_snapshot_record_exact :
  forall k i o s, wf s -> msorted (o_fields o) -> lookup k i s = None ->
    lookup k i (fst (exec s (rec_cmd k i o))) = Some o.
Proof. exact snapshot_record_exact. Qed.
Print Assumptions c09_snapshot_record_exact.

(* The shrinklog of a run (no RENAME) is idempotent on the states of that run: replaying the whole
   log on the dataset as it was after any prefix l1 of the log gives the final live dataset.  (The
   snapshot holds every object as it was at some such moment.) *)
Theorem c09_log_entries_idempotent :
  forall mk mi s0 sched l1 l2, wf s0 -> no_rename sched = true ->
    let r := run_sched mk mi sched (run_init s0) in
    r_log r = l1 ++ l2 ->
    same_data (replay (r_log r) (replay l1 s0)) (r_live r).
Proof. exact log_replay_idempotent. Qed.
Print Assumptions c09_log_entries_idempotent.

(* Per object: acts l k i is the effect of the command list l on the object (k,i) (act: SET keeps
   the old fields, FSET / EXPIRE / PERSIST only act on an existing object, DEL / PDEL / DROP /
   FLUSHDB reset); okl says every FSET / EXPIRE / PERSIST entry for (k,i) found the object when
   the list ran from x0 — true of a shrinklog, whose entries were all `Updated`. *)
Theorem c09_log_idempotent_object :
  forall k i l1 l2 x0, fsorted x0 -> okl (l1 ++ l2) k i x0 ->
    acts (l1 ++ l2) k i (acts l1 k i x0) = acts (l1 ++ l2) k i x0.
Proof. exact log_idempotent. Qed.
Print Assumptions c09_log_idempotent_object.

(* Hooks and channels, repaired loader (a record that fails with "hooks and channels cannot share
   the same name" is skipped like key-not-found): for ALL schedules of SETHOOK / SETCHAN / DELHOOK /
   DELCHAN / PDELHOOK / PDELCHAN / FLUSHDB between the sections of the hooks phase, names changing
   their kind included, the new file restores the registry. *)
Theorem c09_hooks_preserved :
  forall r0 sched, msorted r0 ->
    let r := hrun_sched sched (hrun_init r0) in
    hs_done (hr_sh r) = true -> forall n, get n (hreplay (hnewfile r) []) = get n (hr_live r).
Proof. exact hooks_preserved. Qed.
Print Assumptions c09_hooks_preserved.

(* The reason, per name: the hook shrinklog is idempotent on the states of its own run.  hacts is
   the exact per-name effect (errors ignored), okh what `logged` tells (a logged SET* found the name
   absent or of its kind, a logged DEL* found it with that kind). *)
Theorem c09_hook_log_idempotent :
  forall n l1 l2 x0, okh (l1 ++ l2) n x0 ->
    hacts (l1 ++ l2) n (hacts l1 n x0) = hacts (l1 ++ l2) n x0.
Proof. exact hlog_idempotent. Qed.
Print Assumptions c09_hook_log_idempotent.

(* Hooks and channels, pinned loader: when every name keeps its kind the new file loads and
   restores the registry. *)
Theorem c09_hooks_orig_partial :
  forall r0 sched kind, msorted r0 -> kind_consistent kind r0 sched = true ->
    let r := hrun_sched sched (hrun_init r0) in
    hs_done (hr_sh r) = true ->
    exists reg, hreplay_orig (hnewfile r) [] = Some reg /\ forall n, get n reg = get n (hr_live r).
Proof. exact hooks_orig_partial. Qed.
Print Assumptions c09_hooks_orig_partial.

(* Known finding: a name that changes its kind during the rewrite (SETHOOK x; DELHOOK x; SETCHAN x
   logged before the hooks phase): the snapshot writes `setchan x`, the log then replays
   `sethook x` and the pinned loader refuses to start. *)
Theorem c09_hook_kind_switch_refuted :
  exists r0 sched, msorted r0 /\ hs_done (hr_sh (hrun_sched sched (hrun_init r0))) = true /\
    hreplay_orig (hnewfile (hrun_sched sched (hrun_init r0))) [] = None.
Proof. exact hook_kind_switch_refuted. Qed.
Print Assumptions c09_hook_kind_switch_refuted.

(* TTL digits (tenths of a second; times in nanoseconds).  Objects: rounded down, at least 0.1 s:
   a reloaded object never outlives its original deadline by rounding, except below 0.1 s. *)
Theorem c09_ttl_floor :
  forall ex now, (100000000 <= ex - now)%Z ->
    let t := (obj_ttl_tenths ex now * 100000000)%Z in (t <= ex - now < t + 100000000)%Z.
Proof. exact ttl_floor. Qed.
Print Assumptions c09_ttl_floor.

Theorem c09_ttl_minimum :
  forall ex now, (ex - now < 100000000)%Z -> obj_ttl_tenths ex now = 1%Z.
Proof. exact ttl_minimum. Qed.
Print Assumptions c09_ttl_minimum.

(* Hooks: rounded to the nearest tenth (half up), no lower bound. *)
Theorem c09_hook_ttl_round :
  forall ex now,
    let t := (hook_ttl_tenths ex now * 100000000)%Z in (t - 50000000 <= ex - now < t + 50000000)%Z.
Proof. exact hook_ttl_round. Qed.
Print Assumptions c09_hook_ttl_round.

(* File names: the three files live under <name>, <name>-bak, <name>-shrink for the configured log
   name.  The repaired start-up (restore under the configured name, open the configured name) is
   the directory-level recover_dir, for every name and whatever unrelated files are around. *)
Theorem c09_recover_fs_is_recover_dir :
  forall n d rest, msorted rest -> recover_fs n n (to_fs n d rest) = recover_dir d.
Proof. exact recover_fs_is_recover_dir. Qed.
Print Assumptions c09_recover_fs_is_recover_dir.

(* Hence every crash point is recovered under EVERY configured log name. *)
Theorem c09_crash_points_named :
  forall n rest fi c, msorted rest ->
    same_data (replay (f_snap fi ++ f_slog fi) []) (replay (f_live fi ++ f_pend fi) []) ->
    let s := recover_fs n n (to_fs n (crash_at fi c) rest) in
    same_data s (replay (f_live fi) []) \/ same_data s (replay (f_live fi ++ f_pend fi) []).
Proof. exact crash_points_named. Qed.
Print Assumptions c09_crash_points_named.

(* A restore that looks under another name than the one the server opens (e.g. the default name
   while --appendfilename is set) comes up empty after a crash between the two renames. *)
Theorem c09_restore_other_name_refuted :
  exists n0 n fi, n0 <> n /\
    same_data (replay (f_snap fi ++ f_slog fi) []) (replay (f_live fi ++ f_pend fi) []) /\
    (exists k i v, lookup k i (replay (f_live fi) []) = Some v) /\
    recover_fs n0 n (to_fs n (crash_at fi CP_after_rename_bak) []) = [].
Proof. exact restore_other_name_refuted. Qed.
Print Assumptions c09_restore_other_name_refuted.

(* ---------------------------------------------------------------- non-vacuity *)

(* ten collections, one with 40 objects (more than maxids = 32, and more keys than maxkeys = 8):
   the rewrite is over after 13 sections and wrote one record per object, in dataset order *)
Example c09_ex_quiescent :
  wfb ex_data = true /\ length ex_data = 10%nat /\ length (flatten ex_data) = 58%nat /\
  (maxkeys, maxids) = (8%nat, 32%nat) /\
  let r := run_sched maxkeys maxids (repeat Step 40) (run_init ex_data) in
  sh_done (r_sh r) = true /\
  sh_done (r_sh (run_sched maxkeys maxids (repeat Step 12) (run_init ex_data))) = false /\
  length (sh_out (r_sh r)) = length (flatten ex_data) /\
  sh_out (r_sh r) = map rec_of (flatten ex_data) /\
  replay (newfile r) [] = ex_data.
Proof. vm_compute. repeat split; reflexivity. Qed.

(* writers (no RENAME; SET with FIELD updates incl. a zero value, FSET, EXPIRE, PERSIST, DEL, PDEL,
   DROP, on objects behind, at and ahead of the cursor; 8 of the 26 are not `Updated`) between the sections: the hypotheses of c09_concurrent_partial hold, the
   shrinklog is not empty, the live dataset differs from the initial one, and (as the theorem says)
   the new file replays to it *)
Example c09_ex_concurrent :
  wfb ex_data = true /\ no_rename ex_sched = true /\
  let r := run_sched maxkeys maxids ex_sched (run_init ex_data) in
  sh_done (r_sh r) = true /\ length (r_log r) = 18%nat /\
  length (filter (fun e => match e with W _ => true | _ => false end) ex_sched) = 26%nat /\
  lookup [98] [48; 48] ex_data = Some (mkObj [120] [([97], [49]); ([98], [50]); ([99], [51])] false) /\
  lookup [98] [48; 48] (r_live r) = Some (mkObj [122] [([97], [49]); ([99], [51]); ([122], [57])] false) /\
  lookup [97] [48; 49] ex_data = Some (mkObj [120] [([102], [55])] true) /\
  lookup [97] [48; 49] (r_live r) = Some (mkObj [120] [([102], [56]); ([103], [49])] false) /\
  lookup [100] [51; 57] (r_live r) = Some (mkObj [120] [([98], [50]); ([99], [57])] false) /\
  lookup [100] [48; 53] (r_live r) = None /\ lookup [100] [50; 53] (r_live r) = None /\
  lookup [101] [48; 48] (r_live r) = None /\
  replay (newfile r) [] = r_live r.
Proof. vm_compute. repeat split; reflexivity. Qed.

Example c09_ex_concurrent_flushdb :
  no_rename ex_sched_flush = true /\
  let r := run_sched maxkeys maxids ex_sched_flush (run_init ex_data) in
  sh_done (r_sh r) = true /\ length (r_log r) = 5%nat /\ sh_out (r_sh r) <> [] /\
  length (flatten (r_live r)) = 2%nat /\
  replay (newfile r) [] = r_live r.
Proof. vm_compute. repeat split; try reflexivity. discriminate. Qed.

(* the hypothesis of the crash theorems, with a live file that is not its own snapshot and an
   unflushed command: the two allowed outcomes are different datasets *)
Example c09_ex_crash_hyp :
  same_data (replay (f_snap ex_final ++ f_slog ex_final) []) (replay (f_live ex_final ++ f_pend ex_final) []) /\
  f_snap ex_final <> f_live ex_final /\
  lookup [98] [48; 49] (replay (f_live ex_final) []) = None /\
  lookup [98] [48; 49] (replay (f_live ex_final ++ f_pend ex_final) []) = Some (mkObj [122] [] false) /\
  recover_dir (crash_at ex_final CP_after_rename_bak) = replay (f_live ex_final ++ f_pend ex_final) [] /\
  recover_dir_orig (crash_at ex_final CP_after_rename_bak) = [].
Proof.
  split; [intros k i; vm_compute; reflexivity|].
  split; [discriminate|]. vm_compute. repeat split; reflexivity.
Qed.

(* the schedule of c09_ex_concurrent with thirteen AOFSHRINK requests inserted (at the start, right
   after each of the first writers, twice in a row, at the very end): same shrinklog
   length, same result *)
Example c09_ex_requests :
  no_rename ex_sched_req = true /\
  length (filter (fun e => match e with Req => true | _ => false end) ex_sched_req) = 13%nat /\
  let r := run_sched maxkeys maxids ex_sched_req (run_init ex_data) in
  let r0 := run_sched maxkeys maxids ex_sched (run_init ex_data) in
  sh_done (r_sh r) = true /\ r_shrinking r = true /\ length (r_log r) = 18%nat /\ r = r0 /\
  replay (newfile r) [] = r_live r.
Proof. vm_compute. repeat split; reflexivity. Qed.

(* ex_final dies at CP_after_sync and leaves a two-record -shrink file; after the start-up a second
   rewrite whose snapshot has ONE record ends with exactly snapshot ++ shrinklog *)
Example c09_ex_leftovers :
  let d := crash_at ex_final CP_after_sync in
  d_shrink d = Some (f_snap ex_final ++ f_slog ex_final) /\
  length (f_snap ex_final ++ f_slog ex_final) = 2%nat /\
  let d1 := startup_dir d in
  d_shrink d1 = d_shrink d /\ d_live d1 = Some (f_live ex_final2) /\
  length (f_snap ex_final2 ++ f_slog ex_final2) = 1%nat /\
  replay (f_snap ex_final2 ++ f_slog ex_final2) [] = replay (f_live ex_final2 ++ f_pend ex_final2) [] /\
  replay (f_live ex_final2) [] <> replay (f_live ex_final2 ++ f_pend ex_final2) [] /\
  rewrite_dir d1 ex_final2 = mkDir (Some (f_snap ex_final2 ++ f_slog ex_final2)) None None /\
  recover_dir (rewrite_dir d1 ex_final2) = replay (f_live ex_final2 ++ f_pend ex_final2) [].
Proof. vm_compute. repeat split; try reflexivity. discriminate. Qed.

(* hooks phase: SETHOOK / DELCHAN / DELHOOK of the wrong kind (not updated) / SETHOOK with expiration
   / PDELCHAN / SETCHAN between the sections; every name keeps its kind; both loaders restore the
   registry, which differs from the initial one *)
Example c09_ex_hooks :
  sortedb (keys ex_hooks) = true /\ kind_consistent ex_hkind ex_hooks ex_hsched = true /\
  let r := hrun_sched ex_hsched (hrun_init ex_hooks) in
  hs_done (hr_sh r) = true /\ length (hr_log r) = 5%nat /\ length (hs_out (hr_sh r)) = 3%nat /\
  length (hr_live r) = 4%nat /\ get [98] (hr_live r) = None /\ get [98] ex_hooks <> None /\
  get [97] (hr_live r) = Some (mkHook false [57] true) /\
  hreplay_orig (hnewfile r) [] = Some (hr_live r) /\ hreplay (hnewfile r) [] = hr_live r.
Proof. vm_compute. repeat split; try reflexivity. discriminate. Qed.

(* the kind-switch schedule: the pinned loader fails, the repaired one restores the registry *)
Example c09_ex_hook_kind_switch :
  let r := hrun_sched hsched_switch (hrun_init []) in
  hs_done (hr_sh r) = true /\ hr_live r = [([120], chanB)] /\ length (hnewfile r) = 4%nat /\
  hreplay_orig (hnewfile r) [] = None /\ hreplay (hnewfile r) [] = hr_live r.
Proof. vm_compute. repeat split; reflexivity. Qed.

(* a five-byte log name "x.aof" next to an unrelated file: the crash between the two renames is
   recovered from x.aof-bak; looking under another name finds nothing *)
Example c09_ex_named :
  msorted ex_rest /\ length ex_name = 5%nat /\
  let fs := to_fs ex_name (crash_at ex_final CP_after_rename_bak) ex_rest in
  length fs = 3%nat /\ get ex_name fs = None /\ get (bak_name ex_name) fs <> None /\
  recover_fs ex_name ex_name fs = replay (f_live ex_final ++ f_pend ex_final) [] /\
  recover_fs [97] ex_name fs = [] /\ replay (f_live ex_final ++ f_pend ex_final) [] <> [].
Proof.
  split; [repeat constructor|]. vm_compute. repeat split; try reflexivity; discriminate.
Qed.
