(* C09 — AOFSHRINK preserves the dataset (property theorems; work in progress). *)
From Coq Require Import List NArith ZArith Bool.
From T38 Require Import Base.Bytes Base.SMap Model.Shrink Proofs.ShrinkProofs.
Import ListNotations.
