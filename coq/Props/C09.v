(* C09 — AOFSHRINK preserves the dataset.
   This file holds only the property theorems, each closed by a lemma of Proofs/ShrinkProofs.v,
   and closed examples showing that the hypotheses are satisfiable by non-trivial states. *)
From Coq Require Import List NArith ZArith Bool.
From T38 Require Import Base.Bytes Base.SMap Model.Shrink Proofs.ShrinkProofs.
Import ListNotations.

(* Writers that do not RENAME may run between any two locked sections of the rewrite: once the
   scan loops are over, snapshot ++ shrinklog replays to the live dataset, for any batch sizes. *)
Theorem c09_concurrent_partial :
  forall mk mi s0 sched, wf s0 -> no_rename sched = true ->
    let r := run_sched mk mi sched (run_init s0) in
    sh_done (r_sh r) = true ->
    same_data (replay (newfile r) []) (r_live r).
Proof. exact concurrent_partial. Qed.
Print Assumptions c09_concurrent_partial.

(* No writer at all: the new file replays to the dataset the rewrite started from. *)
Theorem c09_quiescent :
  forall mk mi s n, wf s ->
    let r := run_sched mk mi (repeat Step n) (run_init s) in
    sh_done (r_sh r) = true -> same_data (replay (newfile r) []) s.
Proof. exact quiescent. Qed.
Print Assumptions c09_quiescent.

(* Known finding (open): with RENAME the property fails, with the real batch sizes.
   Witness "lost collection": after the first keys batch b..i (cursor at m), m is renamed to a;
   the rewrite never visits a, and replaying RENAME m a on the snapshot fails with key-not-found. *)
Theorem c09_rename_refuted :
  exists s0 sched, wf s0 /\ sh_done (r_sh (run_sched maxkeys maxids sched (run_init s0))) = true /\
    exists k i, lookup k i (replay (newfile (run_sched maxkeys maxids sched (run_init s0))) []) <>
                lookup k i (r_live (run_sched maxkeys maxids sched (run_init s0))).
Proof. exact rename_refuted. Qed.
Print Assumptions c09_rename_refuted.

(* Witness "replayed twice": RENAME A B; SET A 1 y logged before the snapshot of A and B is taken:
   the replayed RENAME overwrites the snapshot of B with the new A. *)
Theorem c09_rename_dup_refuted :
  exists s0 sched, wf s0 /\ sh_done (r_sh (run_sched maxkeys maxids sched (run_init s0))) = true /\
    exists k i, lookup k i (replay (newfile (run_sched maxkeys maxids sched (run_init s0))) []) <>
                lookup k i (r_live (run_sched maxkeys maxids sched (run_init s0))).
Proof. exact rename_dup_refuted. Qed.
Print Assumptions c09_rename_dup_refuted.

(* Crash at any point of the final section, repaired start-up: the recovered dataset is the one of
   the flushed live file or the one including the accepted-but-unflushed commands. *)
Theorem c09_crash_points :
  forall fi c,
    same_data (replay (f_snap fi ++ f_slog fi) []) (replay (f_live fi ++ f_pend fi) []) ->
    let d := recover_dir (crash_at fi c) in
    same_data d (replay (f_live fi) []) \/ same_data d (replay (f_live fi ++ f_pend fi) []).
Proof. exact crash_points. Qed.
Print Assumptions c09_crash_points.

(* Pinned start-up: a crash between the two renames leaves an empty database. *)
Theorem c09_crash_orig_refuted :
  exists fi,
    same_data (replay (f_snap fi ++ f_slog fi) []) (replay (f_live fi ++ f_pend fi) []) /\
    (exists k i v, lookup k i (replay (f_live fi) []) = Some v) /\
    recover_dir_orig (crash_at fi CP_after_rename_bak) = [].
Proof. exact crash_orig_refuted. Qed.
Print Assumptions c09_crash_orig_refuted.

(* ... and that is the only bad crash point of the pinned start-up. *)
Theorem c09_crash_orig_partial :
  forall fi c, c <> CP_after_rename_bak ->
    same_data (replay (f_snap fi ++ f_slog fi) []) (replay (f_live fi ++ f_pend fi) []) ->
    let d := recover_dir_orig (crash_at fi c) in
    same_data d (replay (f_live fi) []) \/ same_data d (replay (f_live fi ++ f_pend fi) []).
Proof. exact crash_orig_partial. Qed.
Print Assumptions c09_crash_orig_partial.
