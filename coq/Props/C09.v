(* C09 — AOFSHRINK preserves the dataset.
   This file holds only the property theorems, each closed by a lemma of Proofs/ShrinkProofs.v,
   and closed examples showing that the hypotheses are satisfiable by non-trivial states. *)
From Coq Require Import List NArith ZArith Bool.
From T38 Require Import Base.Bytes Base.SMap Model.Shrink Proofs.ShrinkProofs.
Import ListNotations.

(* Writers that do not RENAME may run between any two locked sections of the rewrite: once the
   scan loops are over, snapshot ++ shrinklog replays to the live dataset, for any batch sizes. *)
Theorem c09_concurrent_partial :
  forall mk mi s0 sched, wf s0 -> no_rename sched = true ->
    let r := run_sched mk mi sched (run_init s0) in
    sh_done (r_sh r) = true ->
    same_data (replay (newfile r) []) (r_live r).
Proof. exact concurrent_partial. Qed.
Print Assumptions c09_concurrent_partial.

(* No writer at all: the new file replays to the dataset the rewrite started from. *)
Theorem c09_quiescent :
  forall mk mi s n, wf s ->
    let r := run_sched mk mi (repeat Step n) (run_init s) in
    sh_done (r_sh r) = true -> same_data (replay (newfile r) []) s.
Proof. exact quiescent. Qed.
Print Assumptions c09_quiescent.

(* Known finding (open): with RENAME the property fails, with the real batch sizes.
   Witness "lost collection": after the first keys batch b..i (cursor at m), m is renamed to a;
   the rewrite never visits a, and replaying RENAME m a on the snapshot fails with key-not-found. *)
Theorem c09_rename_refuted :
  exists s0 sched, wf s0 /\ sh_done (r_sh (run_sched maxkeys maxids sched (run_init s0))) = true /\
    exists k i, lookup k i (replay (newfile (run_sched maxkeys maxids sched (run_init s0))) []) <>
                lookup k i (r_live (run_sched maxkeys maxids sched (run_init s0))).
Proof. exact rename_refuted. Qed.
Print Assumptions c09_rename_refuted.

(* Witness "replayed twice": RENAME A B; SET A 1 y logged before the snapshot of A and B is taken:
   the replayed RENAME overwrites the snapshot of B with the new A. *)
Theorem c09_rename_dup_refuted :
  exists s0 sched, wf s0 /\ sh_done (r_sh (run_sched maxkeys maxids sched (run_init s0))) = true /\
    exists k i, lookup k i (replay (newfile (run_sched maxkeys maxids sched (run_init s0))) []) <>
                lookup k i (r_live (run_sched maxkeys maxids sched (run_init s0))).
Proof. exact rename_dup_refuted. Qed.
Print Assumptions c09_rename_dup_refuted.

(* Crash at any point of the final section, repaired start-up: the recovered dataset is the one of
   the flushed live file or the one including the accepted-but-unflushed commands. *)
Theorem c09_crash_points :
  forall fi c,
    same_data (replay (f_snap fi ++ f_slog fi) []) (replay (f_live fi ++ f_pend fi) []) ->
    let d := recover_dir (crash_at fi c) in
    same_data d (replay (f_live fi) []) \/ same_data d (replay (f_live fi ++ f_pend fi) []).
Proof. exact crash_points. Qed.
Print Assumptions c09_crash_points.

(* Pinned start-up: a crash between the two renames leaves an empty database. *)
Theorem c09_crash_orig_refuted :
  exists fi,
    same_data (replay (f_snap fi ++ f_slog fi) []) (replay (f_live fi ++ f_pend fi) []) /\
    (exists k i v, lookup k i (replay (f_live fi) []) = Some v) /\
    recover_dir_orig (crash_at fi CP_after_rename_bak) = [].
Proof. exact crash_orig_refuted. Qed.
Print Assumptions c09_crash_orig_refuted.

(* ... and that is the only bad crash point of the pinned start-up. *)
Theorem c09_crash_orig_partial :
  forall fi c, c <> CP_after_rename_bak ->
    same_data (replay (f_snap fi ++ f_slog fi) []) (replay (f_live fi ++ f_pend fi) []) ->
    let d := recover_dir_orig (crash_at fi c) in
    same_data d (replay (f_live fi) []) \/ same_data d (replay (f_live fi ++ f_pend fi) []).
Proof. exact crash_orig_partial. Qed.
Print Assumptions c09_crash_orig_partial.

(* For ALL schedules (RENAME included): the snapshot records are SET records in strictly increasing
   (key, id) order — rec_lt is the lexicographic order, rec_sorted = all SET + StronglySorted rec_lt —
   hence no object is written twice and no batch repeats an earlier one. *)
Theorem c09_batches_never_repeat :
  forall mk mi s0 sched, wf s0 ->
    let r := run_sched mk mi sched (run_init s0) in rec_sorted (sh_out (r_sh r)).
Proof. exact batches_never_repeat. Qed.
Print Assumptions c09_batches_never_repeat.

(* Quiescent: the snapshot holds exactly the objects of the dataset, each once, in order. *)
Theorem c09_batches_cover :
  forall mk mi s n, wf s ->
    let r := run_sched mk mi (repeat Step n) (run_init s) in
    sh_done (r_sh r) = true ->
    (forall k i v, In (CSet k i v) (sh_out (r_sh r)) <-> lookup k i s = Some v) /\
    rec_sorted (sh_out (r_sh r)).
Proof. exact batches_cover. Qed.
Print Assumptions c09_batches_cover.

(* Quiescent, stronger form: the snapshot IS the flattened dataset (one SET per object, in
   iteration order). *)
Theorem c09_quiescent_snapshot :
  forall mk mi s n, wf s ->
    let r := run_sched mk mi (repeat Step n) (run_init s) in
    sh_done (r_sh r) = true -> sh_out (r_sh r) = map rec_of (flatten s).
Proof. exact quiescent_snapshot. Qed.
Print Assumptions c09_quiescent_snapshot.

(* The quiescent rewrite terminates (batch sizes at least 1). *)
Theorem c09_quiescent_terminates :
  forall mk mi s, (1 <= mk)%nat -> (1 <= mi)%nat -> wf s ->
    exists n, sh_done (r_sh (run_sched mk mi (repeat Step n) (run_init s))) = true.
Proof. exact quiescent_terminates. Qed.
Print Assumptions c09_quiescent_terminates.

(* An AOFSHRINK request that arrives while a rewrite is running is refused: it changes nothing (so
   c09_concurrent_partial and c09_batches_never_repeat hold with requests anywhere in the schedule). *)
Theorem c09_request_is_noop :
  forall mk mi r, r_shrinking r = true -> do_ev mk mi r Req = r.
Proof. exact request_is_noop. Qed.
Print Assumptions c09_request_is_noop.

(* The flag stays set during the whole schedule whatever requests arrive; after the epilogue of the
   rewrite the next request starts a fresh rewrite with an empty shrinklog. *)
Theorem c09_request_lifecycle :
  forall s0 mk mi sched,
    let r := run_sched mk mi sched (run_init s0) in
    r_shrinking r = true /\ request (end_rewrite r) = run_init (r_live r).
Proof. exact request_lifecycle. Qed.
Print Assumptions c09_request_lifecycle.

(* A rewrite started on any directory whose live file is the expected one ends with exactly
   snapshot ++ shrinklog as the live file and no other file, whatever -bak / -shrink files an
   interrupted rewrite left behind (os.Create truncates, the renames overwrite). *)
Theorem c09_rewrite_ignores_leftovers :
  forall d fi, d_live d = Some (f_live fi) ->
    rewrite_dir d fi = mkDir (Some (f_snap fi ++ f_slog fi)) None None.
Proof. exact rewrite_ignores_leftovers. Qed.
Print Assumptions c09_rewrite_ignores_leftovers.

Theorem c09_crash_points_leftovers :
  forall d fi c, d_live d = Some (f_live fi) ->
    same_data (replay (f_snap fi ++ f_slog fi) []) (replay (f_live fi ++ f_pend fi) []) ->
    let d' := recover_dir (crash_from d fi c) in
    same_data d' (replay (f_live fi) []) \/ same_data d' (replay (f_live fi ++ f_pend fi) []).
Proof. exact crash_points_leftovers. Qed.
Print Assumptions c09_crash_points_leftovers.

(* The repaired start-up changes the directory but not the dataset it recovers to. *)
Theorem c09_startup_keeps_data :
  forall fi c, recover_dir (startup_dir (crash_at fi c)) = recover_dir (crash_at fi c).
Proof. exact startup_keeps_data. Qed.
Print Assumptions c09_startup_keeps_data.

(* A crashed rewrite, a restart, and a second rewrite: the result is the second new file alone. *)
Theorem c09_two_rewrites :
  forall fi1 c fi2, d_live (startup_dir (crash_at fi1 c)) = Some (f_live fi2) ->
    recover_dir (rewrite_dir (startup_dir (crash_at fi1 c)) fi2) = replay (f_snap fi2 ++ f_slog fi2) [].
Proof. exact two_rewrites. Qed.
Print Assumptions c09_two_rewrites.

(* ---------------------------------------------------------------- non-vacuity *)

(* ten collections, one with 40 objects (more than maxids = 32, and more keys than maxkeys = 8):
   the rewrite is over after 13 sections and wrote one record per object, in dataset order *)
Example c09_ex_quiescent :
  wfb ex_data = true /\ length ex_data = 10%nat /\ length (flatten ex_data) = 58%nat /\
  (maxkeys, maxids) = (8%nat, 32%nat) /\
  let r := run_sched maxkeys maxids (repeat Step 40) (run_init ex_data) in
  sh_done (r_sh r) = true /\
  sh_done (r_sh (run_sched maxkeys maxids (repeat Step 12) (run_init ex_data))) = false /\
  length (sh_out (r_sh r)) = length (flatten ex_data) /\
  sh_out (r_sh r) = map rec_of (flatten ex_data) /\
  replay (newfile r) [] = ex_data.
Proof. vm_compute. repeat split; reflexivity. Qed.

(* writers (no RENAME) between the sections: the hypotheses of c09_concurrent_partial hold, the
   shrinklog is not empty, the live dataset differs from the initial one, and (as the theorem says)
   the new file replays to it *)
Example c09_ex_concurrent :
  wfb ex_data = true /\ no_rename ex_sched = true /\
  let r := run_sched maxkeys maxids ex_sched (run_init ex_data) in
  sh_done (r_sh r) = true /\ length (r_log r) = 9%nat /\
  lookup [97] [48; 55] (r_live r) = Some [121] /\ lookup [97] [48; 55] ex_data = None /\
  lookup [100] [48; 53] (r_live r) = None /\ lookup [100] [48; 53] ex_data = Some [120] /\
  replay (newfile r) [] = r_live r.
Proof. vm_compute. repeat split; reflexivity. Qed.

Example c09_ex_concurrent_flushdb :
  no_rename ex_sched_flush = true /\
  let r := run_sched maxkeys maxids ex_sched_flush (run_init ex_data) in
  sh_done (r_sh r) = true /\ length (r_log r) = 4%nat /\ sh_out (r_sh r) <> [] /\
  length (flatten (r_live r)) = 2%nat /\
  replay (newfile r) [] = r_live r.
Proof. vm_compute. repeat split; try reflexivity. discriminate. Qed.

(* the hypothesis of the crash theorems, with a live file that is not its own snapshot and an
   unflushed command: the two allowed outcomes are different datasets *)
Example c09_ex_crash_hyp :
  same_data (replay (f_snap ex_final ++ f_slog ex_final) []) (replay (f_live ex_final ++ f_pend ex_final) []) /\
  f_snap ex_final <> f_live ex_final /\
  lookup [98] [48; 49] (replay (f_live ex_final) []) = None /\
  lookup [98] [48; 49] (replay (f_live ex_final ++ f_pend ex_final) []) = Some [122] /\
  recover_dir (crash_at ex_final CP_after_rename_bak) = replay (f_live ex_final ++ f_pend ex_final) [] /\
  recover_dir_orig (crash_at ex_final CP_after_rename_bak) = [].
Proof.
  split; [intros k i; vm_compute; reflexivity|].
  split; [discriminate|]. vm_compute. repeat split; reflexivity.
Qed.

(* the schedule of c09_ex_concurrent with six AOFSHRINK requests inserted (after a section, right
   after a writer, twice in a row, before the last sections, at the very end): same shrinklog
   length, same result *)
Example c09_ex_requests :
  no_rename ex_sched_req = true /\
  length (filter (fun e => match e with Req => true | _ => false end) ex_sched_req) = 6%nat /\
  let r := run_sched maxkeys maxids ex_sched_req (run_init ex_data) in
  let r0 := run_sched maxkeys maxids ex_sched (run_init ex_data) in
  sh_done (r_sh r) = true /\ r_shrinking r = true /\ length (r_log r) = 9%nat /\ r = r0 /\
  replay (newfile r) [] = r_live r.
Proof. vm_compute. repeat split; reflexivity. Qed.

(* ex_final dies at CP_after_sync and leaves a two-record -shrink file; after the start-up a second
   rewrite whose snapshot has ONE record ends with exactly snapshot ++ shrinklog *)
Example c09_ex_leftovers :
  let d := crash_at ex_final CP_after_sync in
  d_shrink d = Some (f_snap ex_final ++ f_slog ex_final) /\
  length (f_snap ex_final ++ f_slog ex_final) = 2%nat /\
  let d1 := startup_dir d in
  d_shrink d1 = d_shrink d /\ d_live d1 = Some (f_live ex_final2) /\
  length (f_snap ex_final2 ++ f_slog ex_final2) = 1%nat /\
  replay (f_snap ex_final2 ++ f_slog ex_final2) [] = replay (f_live ex_final2 ++ f_pend ex_final2) [] /\
  replay (f_live ex_final2) [] <> replay (f_live ex_final2 ++ f_pend ex_final2) [] /\
  rewrite_dir d1 ex_final2 = mkDir (Some (f_snap ex_final2 ++ f_slog ex_final2)) None None /\
  recover_dir (rewrite_dir d1 ex_final2) = replay (f_live ex_final2 ++ f_pend ex_final2) [].
Proof. vm_compute. repeat split; try reflexivity. discriminate. Qed.
