(* C20, continued — the "previous position" of a roaming evaluation is the object stored under the id
   immediately before the SET (what GET returned), whatever its deadline.
   Only the property theorems, each closed by a lemma of Proofs/RoamSetProofs.v.
   Model: Model/RoamSet.v (tail of cmdSET: old := col.Set(obj); d.old = old; Collection.Get / Set do not
   look at deadlines; backgroundExpireObjects deletes expired objects later).  krun = any history of
   SET (with or without EX) / DEL / sweep of the fenced collection. *)
From Coq Require Import List NArith ZArith Bool String.
From T38 Require Import Base.Bytes Model.Glob Model.Roam Model.RoamSet Proofs.RoamProofs Proofs.RoamSetProofs Gen.SetOld.
Import ListNotations.

Section C20set.
  Variable G : Type.
  Variable dist : G -> G -> Z.
  Variable in_rect : G -> Z -> G -> bool.
  Variable rmin : Z.
  Hypothesis Hr : forall c r o, (rmin <= r)%Z -> (dist c o <= r)%Z -> in_rect c r o = true.

  (* commandDetails.old of a SET is Collection.Get of the id just before it, at any clock value *)
  Theorem c20_set_old_is_get : forall now col o,
    snd (set_details G (old_as_is G) now col o) = col_get G (s_id o) col.
  Proof. exact (set_old_is_get G). Qed.

  (* after any history, an object that is still stored - its deadline passed or not - is the old of the
     next SET of its id *)
  Theorem c20_stored_is_old : forall ops now x o,
    In x (krun G ops) -> s_id x = s_id o ->
    snd (set_details G (old_as_is G) now (krun G ops) o) = Some x.
  Proof. intros ops now x o Hi He. exact (stored_is_old G now (krun G ops) x o (krun_ids_unique G ops) Hi He). Qed.

  (* partial (radii >= rmin, as c20_faraway_exact_partial): the faraway entries of that SET are the
     pattern-matching objects within the radius of the stored previous object - no condition on its
     deadline or on the clock - and not within the radius of the new position *)
  Theorem c20_set_faraway_from_stored_partial : forall ops now x o rcol sw near far,
    In x (krun G ops) -> s_id x = s_id o ->
    (rmin <= rs_meters sw)%Z -> NoDup (map (@o_id G) rcol) ->
    set_roam G dist in_rect (old_as_is G) now (krun G ops) o rcol sw = RoamDone near far ->
    forall m, In m far <->
      exists n, In n rcol /\
        (o_id n <> s_id o /\ (dist (s_geo x) (o_geo n) <= rs_meters sw)%Z /\ id_match sw (o_id n) = true) /\
        ~ (dist (s_geo o) (o_geo n) <= rs_meters sw)%Z /\
        m = {| m_id := o_id n; m_geo := o_geo n; m_meters := dist (o_geo n) (s_geo o) |}.
  Proof. exact (set_roam_faraway G dist in_rect rmin Hr). Qed.
End C20set.
Print Assumptions c20_set_old_is_get.
Print Assumptions c20_stored_is_old.
Print Assumptions c20_set_faraway_from_stored_partial.

(* a cmdSET that forgets a replaced object whose deadline has passed: the object is still stored (GET
   returns it), it is SET elsewhere, and the neighbour it leaves is not reported faraway *)
Theorem c20_set_forget_expired_refuted :
  col_get Plane.P (Plane.b 97) (krun Plane.P PlaneSet.ops) = Some (PlaneSet.so 97 5000 0 (Some 10%Z)) /\
  set_roam Plane.P Plane.pdist Plane.prect (old_as_is Plane.P) 20 (krun Plane.P PlaneSet.ops) (PlaneSet.so 97 0 0 None)
           PlaneSet.rcol_after (Plane.sw1000 false)
    = RoamDone [] [{| m_id := Plane.b 101; m_geo := (5000, 300)%Z; m_meters := 25090000%Z |}] /\
  set_roam Plane.P Plane.pdist Plane.prect (old_forget_expired Plane.P) 20 (krun Plane.P PlaneSet.ops) (PlaneSet.so 97 0 0 None)
           PlaneSet.rcol_after (Plane.sw1000 false)
    = RoamDone [] [].
Proof. exact PlaneSet.forget_expired_refuted. Qed.
Print Assumptions c20_set_forget_expired_refuted.

(* ... and under NODWELL a neighbour that was already within the radius is reported nearby again *)
Theorem c20_set_forget_expired_nodwell_refuted :
  set_roam Plane.P Plane.pdist Plane.prect (old_as_is Plane.P) 20 (krun Plane.P PlaneSet.ops2) (PlaneSet.so 97 0 0 None)
           [Plane.mk 97 0 0; Plane.mk 99 300 400] (Plane.sw1000 true) = RoamDone [] [] /\
  set_roam Plane.P Plane.pdist Plane.prect (old_forget_expired Plane.P) 20 (krun Plane.P PlaneSet.ops2) (PlaneSet.so 97 0 0 None)
           [Plane.mk 97 0 0; Plane.mk 99 300 400] (Plane.sw1000 true)
    = RoamDone [{| m_id := Plane.b 99; m_geo := (300, 400)%Z; m_meters := 250000%Z |}] [].
Proof. exact PlaneSet.forget_expired_nodwell_refuted. Qed.
Print Assumptions c20_set_forget_expired_nodwell_refuted.

(* tie to the source: in cmdSET the variable d.old receives is assigned once, from col.Set(obj); d.obj is
   obj; fenceMatch hands details.obj and details.old to fenceMatchRoam *)
Open Scope string_scope.
Theorem c20_set_old_source_tied :
  set_old_defs = ["col.Set(obj)"] /\ set_details_old = ["old"] /\ set_details_obj = ["obj"] /\
  roam_call_args = ["sw.s"; "fence"; "details.obj"; "details.old"].
Proof. exact set_old_source_tied. Qed.
Print Assumptions c20_set_old_source_tied.
