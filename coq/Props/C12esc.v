(* C12 (continuation, round 5) — PDEL selects exactly the ids matching its pattern for EVERY
   pattern, escapes included; a filter means the same over every transport: a command sent as
   one text line (HTTP, native framing) reaches the command as the words between the blanks,
   also when a MATCH pattern opens with '['.
   Only property theorems, each closed by a lemma of Proofs/GlobSelEscProofs.v. *)
From T38 Require Import Base.Bytes Model.Glob Proofs.GlobProofs Model.Roam Proofs.RoamPatProofs.
From T38 Require Import Model.Resp Model.GlobSel Proofs.GlobSelProofs Model.GlobSelEsc Proofs.GlobSelEscProofs.
Import ListNotations.

(* cmdPDEL as written (Parse's range + Scan / ScanRange + Match on every visited id) deletes
   exactly the ids glob.Match accepts — no hypothesis on the shape of the pattern beyond the open
   finding C12-ff: escape-only patterns (CORP\\alice), escape + wildcard, anything. *)
Theorem c12_pdel_select_exact : forall pattern ids,
  bsorted ids -> prefix_ends_ff pattern = false ->
  pdel_select pattern ids = filter (gmatches pattern) ids.
Proof. exact pdel_select_exact. Qed.
Print Assumptions c12_pdel_select_exact.

(* A literal lookup (col.Get(pattern)) guarded by glob.IsGlob would be right only for patterns
   without an escape (C20's c20_isglob_false_shortcut_exact is the reason) ... *)
Theorem c12_pdel_plain_lookup_needs_no_escape : forall pattern ids,
  bsorted ids -> is_glob pattern = false -> glob_ok pattern -> ~ In BSL pattern ->
  pdel_select_plain pattern ids = filter (gmatches pattern) ids.
Proof. exact pdel_plain_right_without_escape. Qed.
Print Assumptions c12_pdel_plain_lookup_needs_no_escape.

(* ... and is refuted with one: IsGlob is false for a\b, glob.Match a\b accepts "ab" and rejects
   "a\b"; the lookup deletes "a\b" and leaves "ab" while cmdPDEL as written does the opposite. *)
Theorem c12_pdel_plain_lookup_refuted :
  exists pattern ids, bsorted ids /\ prefix_ends_ff pattern = false /\ is_glob pattern = false /\
    pdel_select pattern ids = filter (gmatches pattern) ids /\
    pdel_select_plain pattern ids <> filter (gmatches pattern) ids.
Proof. exact pdel_plain_refuted. Qed.
Print Assumptions c12_pdel_plain_lookup_refuted.

(* readNativeMessageLine (Model/Resp.v native_tok): a line of plain words (non-empty, no blank
   inside, not opening with '{' or a double quote) arrives as exactly those words ... *)
Theorem c12_transport_words_split : forall ws,
  ws <> [] -> forallb plain_word ws = true -> transport_words (join_sp ws) = TOk ws.
Proof. exact transport_words_split. Qed.
Print Assumptions c12_transport_words_split.

(* ... in particular a pattern opening with a character class is split at the blank like any
   other word, wherever it stands in the command (SCAN fleet MATCH [ab]* IDS) *)
Theorem c12_bracket_pattern_split : forall pre w post,
  forallb plain_word pre = true -> ~ In 32%N w -> post <> [] -> forallb plain_word post = true ->
  transport_words (join_sp (pre ++ (LBR :: w) :: post)) = TOk (pre ++ (LBR :: w) :: post).
Proof. exact bracket_pattern_split. Qed.
Print Assumptions c12_bracket_pattern_split.

(* the '{' exclusion cannot be dropped: a word opening with '{' runs to the end of the line (the
   documented JSON rule of the line protocols) — extending that rule to '[' would make
   c12_bracket_pattern_split false in the same way *)
Theorem c12_transport_brace_first_refuted :
  exists ws, ws <> [] /\ (forall w, In w ws -> w <> [] /\ ~ In 32%N w) /\ transport_words (join_sp ws) <> TOk ws.
Proof. exact brace_first_swallows. Qed.
Print Assumptions c12_transport_brace_first_refuted.

(* non-vacuity: SCAN fleet MATCH [ab]* IDS *)
Example c12_esc_nonvacuous :
  let ws := [[83;67;65;78]; [102;108;101;101;116]; [77;65;84;67;72]; [LBR;97;98;RBR;STAR]; [73;68;83]] in
  forallb plain_word ws = true /\ transport_words (join_sp ws) = TOk ws /\
  pdel_select [67;92;92;97] [[67;92;97]; [67;97]] = [[67;92;97]] /\
  pdel_select [67;92;97] [[67;92;97]; [67;97]] = [[67;97]].
Proof. vm_compute. repeat split. Qed.
