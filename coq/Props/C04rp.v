(* C04, continuation: executing the replayed commands cannot move the loader's position.
   loadAOF keeps its byte offset in Server.aofsz and runs every complete command on the same server;
   the offset the file is truncated to must depend only on the bytes of the log.
   Only the property theorems, each closed by a lemma of Proofs/AofReplayProofs.v. *)
From Coq Require Import String List Bool ZArith.
From T38 Require Import Base.Bytes Model.Resp Model.Aof Model.Tables Model.AofReplay
  Proofs.AofProofs Proofs.ChunkProofs Proofs.AofReplayProofs
  Gen.LockTable Gen.Dispatch Gen.Mutators.
Import ListNotations.
Local Open Scope Z_scope.
Local Open Scope list_scope.

(* Over the tables t38x regenerates from /repo on every run: for every command name that
   handleInputCommand hands to writeAOF (and that can therefore be in a log: SET ... FLUSHDB, DROP,
   RENAME, SETHOOK/SETCHAN, the records scripts write, ...), the handler Server.command dispatches
   does not assign Server.aofsz, directly or through any synchronous in-package call. *)
Theorem c04_replay_position_untouched :
  forallb (fun c => negb (cmd_writes_pos dispatch effects c)) (loggable lock_table) = true.
Proof. exact loggable_untouched_b. Qed.
Print Assumptions c04_replay_position_untouched.

(* ... and every such command has a handler whose effects the translator has analysed *)
Theorem c04_replay_handlers_known :
  forallb (fun c => match find_handler dispatch c with
                    | Some h => match assoc effects (h_fn h) with Some _ => true | None => false end
                    | None => false end) (loggable lock_table) = true.
Proof. exact loggable_known_b. Qed.
Print Assumptions c04_replay_handlers_known.

(* The frame theorem, for ANY dispatch: if none of the commands of the log runs a handler that assigns the
   position, the loader with command execution cuts the file where the bytes-only loader does and has run
   exactly the commands it lists (XFatal when one of them returns a fatal error). *)
Theorem c04_replay_frame :
  forall (St : Type) (name_of : list bytes -> string) (run : list bytes -> St -> option St)
         (havoc : list bytes -> St -> Z -> Z) (writes_pos : string -> bool) file cs v s,
  load_aof file = Loaded cs v -> Forall (fun c => writes_pos (name_of c) = false) cs ->
  load_aof_x St name_of run havoc writes_pos file s =
  match run_all St run cs s with Some s' => XLoaded s' v | None => XFatal end.
Proof. exact load_aof_x_frame. Qed.
Print Assumptions c04_replay_frame.

(* With the real dispatch: for every log that loads, every command list in it made of commands that can be
   logged (or that Server.command does not know), every handler semantics, every value a handler could
   give the position: the recovered size is the bytes-only valid size of c04_cut_chunked / c04_cut_padded. *)
Theorem c04_replay_size_bytes_only :
  forall (St : Type) (name_of : list bytes -> string) (run : list bytes -> St -> option St)
         (havoc : list bytes -> St -> Z -> Z) file cs v s,
  load_aof file = Loaded cs v -> Forall (may_be_logged name_of) cs ->
  load_aof_x St name_of run havoc (cmd_writes_pos dispatch effects) file s =
  match run_all St run cs s with Some s' => XLoaded s' v | None => XFatal end.
Proof. exact replay_size_bytes_only. Qed.
Print Assumptions c04_replay_size_bytes_only.

(* c04_cut_chunked with command execution: a log torn at ANY byte is cut back to the end of its last
   complete command and exactly the complete commands have been executed. *)
Theorem c04_replay_cut :
  forall (St : Type) (name_of : list bytes -> string) (run : list bytes -> St -> option St)
         (havoc : list bytes -> St -> Z -> Z) cmds q t s,
  Forall cmd_ok cmds -> Forall (may_be_logged name_of) cmds -> q ++ t = encs cmds ->
  let kept := firstn (inside cmds (len q)) cmds in
  load_aof_x St name_of run havoc (cmd_writes_pos dispatch effects) q s =
  match run_all St run kept s with Some s' => XLoaded s' (len (encs kept)) | None => XFatal end.
Proof. exact replay_cut_bytes_only. Qed.
Print Assumptions c04_replay_cut.

(* The hypothesis matters: on `SET k v; FLUSHDB; SET k v` torn inside the third command the real tables give
   the cut 44; a dispatch whose FLUSHDB handler resets the position gives Truncate(-20). *)
Theorem c04_replay_havoc_moves_cut :
  load_aof ex_file = Loaded [ex_set; ex_flushdb] 44 /\
  load_aof_x unit ex_name (fun _ s => Some s) (fun _ _ _ => 0) (cmd_writes_pos dispatch effects) ex_file tt = XLoaded tt 44 /\
  load_aof_x unit ex_name (fun _ s => Some s) (fun _ _ _ => 0) (fun c => String.eqb c "flushdb") ex_file tt = XLoaded tt (-20).
Proof. exact havoc_moves_cut. Qed.
Print Assumptions c04_replay_havoc_moves_cut.

(* non-vacuity: the loggable set is the 18 write commands, and the example commands satisfy may_be_logged *)
Example c04_replay_nonvacuous :
  In "flushdb"%string (loggable lock_table) /\ In "set"%string (loggable lock_table) /\
  In "drop"%string (loggable lock_table) /\ In "rename"%string (loggable lock_table) /\
  In "sethook"%string (loggable lock_table) /\ In "setchan"%string (loggable lock_table) /\
  In "jset"%string (loggable lock_table) /\ In "expire"%string (loggable lock_table) /\
  (18 <= length (loggable lock_table))%nat /\
  may_be_logged ex_name ex_set /\ may_be_logged ex_name ex_flushdb.
Proof. exact loggable_nonvacuous. Qed.
