#!/bin/sh
# MANIFEST.setup_cmd: build the framework from files on disk only (offline).
set -e
cd "$(dirname "$0")"
export GOFLAGS=-mod=mod GOPROXY=off
unset GOSUMDB GOTOOLCHAIN || true
mkdir -p .work/bin evidence replays
# hygiene: no Admitted / Axiom / Parameter / disabled checks anywhere in the development
if grep -rnE '\b(Admitted|admit|Axiom|Parameter|Conjecture)\b|Unset Guard|bypass_check|type-in-type' coq --include='*.v' | grep -v '^\S*:[0-9]*:\s*(\*' | grep -vE '\(\*.*(Admitted|admit|Axiom|Parameter|Conjecture).*\*\)'; then
  echo "setup: forbidden vernacular found" >&2; exit 1
fi
# translator + generated tables
if [ -f t38x/go.mod ]; then
  (cd t38x && go build -o ../.work/bin/t38x .)
  ./.work/bin/t38x -repo /repo -out coq/Gen
fi
if [ -d harness/cmd/tmplx ]; then
  cp /repo/go.sum harness/go.sum
  (cd harness && go build -tags verif -o ../.work/bin/tmplx ./cmd/tmplx && ../.work/bin/tmplx -repo /repo -out ../coq/Gen) || echo "setup: tmplx failed"
fi
# full Coq build (.vo, never -vos)
(cd coq && coq_makefile -f _CoqProject -o Makefile >/dev/null && (timeout 3000 make -k -j16 || echo 'setup: some Coq file does not compile; the affected property checks will report it'))
# extraction + OCaml driver
./ocaml/build.sh || echo 'setup: a model driver failed to build; the affected property checks will report it'
# server with hooks + harness
(cd /repo && go build -tags verif -o /verif/.work/bin/tile38-server ./cmd/tile38-server)
cp /repo/go.sum harness/go.sum
(cd harness && for d in cmd/*/; do n=$(basename $d); go build -tags verif -o ../.work/bin/harness-$(echo $n | tr a-z A-Z) ./cmd/$n || echo "setup: harness $n does not build"; done)
echo "setup ok"
